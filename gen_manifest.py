#!/usr/bin/env python3
"""Generates MANIFEST.json from checks.json and manifest_meta.json."""
import json, os
root = os.path.dirname(os.path.abspath(__file__))
checks = json.load(open(os.path.join(root, "checks.json")))
meta = json.load(open(os.path.join(root, "manifest_meta.json")))
props = [json.loads(l) for l in open(os.path.join(root, "properties.jsonl"))]
man = {
    "version": 1,
    "setup_cmd": "./check --setup",
    "hooks": meta["hooks"],
    "engines": meta.get("engines", []),
    "checks": [],
    "not_applicable": [],
    "notes": meta.get("notes", ""),
}
for p in props:
    pid = p["id"]
    if pid in checks and pid in meta["checks"]:
        m = meta["checks"][pid]
        c = {
            "property_id": pid,
            "quick_cmd": "./check %s --tier quick" % pid,
            "thorough_cmd": "./check %s --tier thorough" % pid,
            "evidence_file": "/verif/evidence/%s.json" % pid,
            "replay_cmd_template": "./check %s --replay {path}" % pid,
            "engine": "rapid-harness",
            "level_claimed": {"category": "exploration", "text": m["level_text"], "design_ref": m.get("design_ref", "DESIGN.md section 3, " + pid)},
            "level_note": m["level_note"],
            "technique": m["technique"],
        }
        man["checks"].append(c)
    else:
        man["not_applicable"].append({"property_id": pid, "reason": meta.get("na", {}).get(pid, "check not built yet in this session (planned, see DESIGN.md section 3)")})
for e in man["engines"]:
    e["serves_properties"] = [c["property_id"] for c in man["checks"]]
json.dump(man, open(os.path.join(root, "MANIFEST.json"), "w"), indent=1)
print("checks:", len(man["checks"]), "not_applicable:", len(man["not_applicable"]))
