// Command mutator enumerates and applies single-site syntactic mutations of a
// Go source file (go/ast based). It is the generator of the bulk sensitivity
// experiment described in DESIGN.md section 10: every mutant that still
// compiles and passes the repository's own tests is run against the checks.
//
//	mutator list  <file.go>            prints one JSON object per mutation site
//	mutator apply <file.go> <index>    prints the mutated source
package main

import (
	"bytes"
	"encoding/json"
	"fmt"
	"go/ast"
	"go/parser"
	"go/format"
	"go/token"
	"os"
	"strconv"
)

type site struct {
	Index int    `json:"index"`
	Line  int    `json:"line"`
	Kind  string `json:"kind"`
	Desc  string `json:"desc"`
	Func  string `json:"func"`
}

var binSwap = map[token.Token][]token.Token{
	token.LSS: {token.LEQ}, token.LEQ: {token.LSS}, token.GTR: {token.GEQ}, token.GEQ: {token.GTR},
	token.EQL: {token.NEQ}, token.NEQ: {token.EQL},
	token.ADD: {token.SUB}, token.SUB: {token.ADD}, token.MUL: {token.ADD}, token.QUO: {token.MUL}, token.REM: {token.QUO},
	token.LAND: {token.LOR}, token.LOR: {token.LAND},
	token.SHL: {token.SHR}, token.SHR: {token.SHL}, token.AND: {token.OR}, token.OR: {token.AND},
}

var identSwap = map[string]string{
	"true": "false", "false": "true",
	"width32": "width64", "width64": "width32",
}

type mutation struct {
	site  site
	apply func()
}

func main() {
	if len(os.Args) < 3 {
		fmt.Fprintln(os.Stderr, "usage: mutator list|apply file [index]")
		os.Exit(2)
	}
	fset := token.NewFileSet()
	f, err := parser.ParseFile(fset, os.Args[2], nil, parser.ParseComments)
	if err != nil {
		fmt.Fprintln(os.Stderr, err)
		os.Exit(2)
	}
	var muts []mutation
	curFunc := ""
	add := func(pos token.Pos, kind, desc string, apply func()) {
		muts = append(muts, mutation{site{len(muts), fset.Position(pos).Line, kind, desc, curFunc}, apply})
	}
	var visitStmts func(list *[]ast.Stmt)
	visitStmts = func(list *[]ast.Stmt) {
		for i := range *list {
			i := i
			switch s := (*list)[i].(type) {
			case *ast.ExprStmt:
				if _, ok := s.X.(*ast.CallExpr); ok {
					add(s.Pos(), "delete-call", "call statement removed", func() { (*list)[i] = &ast.EmptyStmt{} })
				}
			case *ast.AssignStmt:
				if s.Tok != token.DEFINE && len(s.Lhs) == 1 {
					add(s.Pos(), "delete-assign", "assignment removed", func() { (*list)[i] = &ast.EmptyStmt{} })
				}
			case *ast.IncDecStmt:
				add(s.Pos(), "delete-incdec", "inc/dec removed", func() { (*list)[i] = &ast.EmptyStmt{} })
			}
		}
	}
	ast.Inspect(f, func(n ast.Node) bool {
		switch x := n.(type) {
		case *ast.FuncDecl:
			curFunc = x.Name.Name
		case *ast.BlockStmt:
			visitStmts(&x.List)
		case *ast.CaseClause:
			visitStmts(&x.Body)
		case *ast.BinaryExpr:
			for _, to := range binSwap[x.Op] {
				from, to := x.Op, to
				add(x.OpPos, "binary", fmt.Sprintf("%s -> %s", from, to), func() { x.Op = to })
			}
		case *ast.UnaryExpr:
			if x.Op == token.NOT {
				add(x.Pos(), "drop-not", "! removed", func() { x.Op = token.ADD })
			}
		case *ast.IfStmt:
			add(x.Cond.Pos(), "negate-if", "if condition negated", func() {
				x.Cond = &ast.UnaryExpr{Op: token.NOT, X: &ast.ParenExpr{X: x.Cond}}
			})
		case *ast.BranchStmt:
			if x.Label == nil && x.Tok == token.CONTINUE {
				add(x.Pos(), "branch", "continue -> break", func() { x.Tok = token.BREAK })
			} else if x.Label == nil && x.Tok == token.BREAK {
				add(x.Pos(), "branch", "break -> continue", func() { x.Tok = token.CONTINUE })
			}
		case *ast.BasicLit:
			if x.Kind == token.INT {
				if v, err := strconv.ParseInt(x.Value, 0, 64); err == nil && v >= 0 && v <= 64 {
					add(x.Pos(), "int", fmt.Sprintf("%d -> %d", v, v+1), func() { x.Value = strconv.FormatInt(v+1, 10) })
					if v > 0 {
						add(x.Pos(), "int", fmt.Sprintf("%d -> %d", v, v-1), func() { x.Value = strconv.FormatInt(v-1, 10) })
					}
				}
			}
		case *ast.Ident:
			if to, ok := identSwap[x.Name]; ok && x.Obj == nil {
				from := x.Name
				add(x.Pos(), "ident", from+" -> "+to, func() { x.Name = to })
			}
		case *ast.CallExpr:
			if len(x.Args) >= 2 && len(x.Args) <= 4 && !x.Ellipsis.IsValid() {
				add(x.Lparen, "swap-args", "first two call arguments swapped", func() { x.Args[0], x.Args[1] = x.Args[1], x.Args[0] })
			}
		case *ast.IndexExpr:
			_ = x
		case *ast.SliceExpr:
			if x.Low != nil {
				add(x.Lbrack, "slice", "slice low bound dropped", func() { x.Low = nil })
			}
			if x.High != nil && !x.Slice3 {
				add(x.Lbrack, "slice", "slice high bound dropped", func() { x.High = nil })
			}
		case *ast.ReturnStmt:
			_ = x
		}
		return true
	})

	switch os.Args[1] {
	case "list":
		enc := json.NewEncoder(os.Stdout)
		for _, m := range muts {
			enc.Encode(m.site)
		}
	case "apply":
		idx, _ := strconv.Atoi(os.Args[3])
		if idx == -1 { // the unmutated file in the same formatting (for diffs)
			var buf bytes.Buffer
			format.Node(&buf, fset, f)
			os.Stdout.Write(buf.Bytes())
			return
		}
		if idx < 0 || idx >= len(muts) {
			fmt.Fprintln(os.Stderr, "no such mutation")
			os.Exit(2)
		}
		muts[idx].apply()
		var buf bytes.Buffer
		if err := format.Node(&buf, fset, f); err != nil {
			fmt.Fprintln(os.Stderr, err)
			os.Exit(2)
		}
		os.Stdout.Write(buf.Bytes())
	}
}
