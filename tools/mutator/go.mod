module mutator

go 1.23
