#!/usr/bin/env python3
"""Confirms an independently seeded change and runs the checks against it.

  tools/verify_seed.py <name> <seed-dir-with-SEED> <property> [extra check ids...]

Steps (all in a scratch worktree of /repo under /tmp, removed afterwards):
 1. apply SEED/patch.diff; the tree must build and the unedited test suite pass;
 2. the demonstration must FAIL with the change and PASS without it;
 3. the quick tier of the property's check (and of the extra checks) is run
    against the changed tree through VERIF_REPO and must report a VIOLATION.
The seed is copied to /verif/seeded/<name>/ with the findings added to meta.json.
"""
import json, os, shutil, subprocess, sys

ROOT = os.path.dirname(os.path.dirname(os.path.abspath(__file__)))
name, src, prop = sys.argv[1], sys.argv[2], sys.argv[3]
extra = sys.argv[4:]
seed = os.path.join(src, "SEED")
WT = "/tmp/vs-" + name
ENV = "export GOFLAGS=-mod=mod GOPROXY=off GOSUMDB=off GOTOOLCHAIN=local; "

def sh(cmd, cwd=None):
    r = subprocess.run(ENV + cmd, shell=True, cwd=cwd, stdout=subprocess.PIPE, stderr=subprocess.STDOUT, text=True)
    return r.returncode, r.stdout

meta = json.load(open(os.path.join(seed, "meta.json")))
sh("git -C /repo worktree remove --force " + WT); shutil.rmtree(WT, ignore_errors=True)
rc, out = sh("git -C /repo worktree add --detach %s HEAD" % WT)
assert rc == 0, out
ran = []
res = {}
try:
    rc, out = sh("git apply %s" % os.path.join(seed, "patch.diff"), WT)
    res["patch_applies"] = rc == 0
    ran.append("git apply patch.diff (on /repo HEAD %s)" % subprocess.getoutput("git -C /repo rev-parse --short HEAD"))
    if rc != 0:
        print(out); raise SystemExit("patch does not apply")
    rc, out = sh("go build ./... && go build -tags verif ./...", WT)
    res["builds"] = rc == 0
    rc, out = sh("go test -vet=off -count=1 ./... 2>&1 | grep -v '^ok\\|no test files'", WT)
    res["existing_tests_pass"] = (out.strip() == "")
    ran.append("go build ./... ; go test -vet=off -count=1 ./...  -> %s" % ("all pass" if res["existing_tests_pass"] else out[-400:]))
    demo_dir = os.path.join(WT, meta["demo_dir"])
    demo_src = os.path.join(seed, "demo_test.go")
    shutil.copyfile(demo_src, os.path.join(demo_dir, "zz_seed_demo_test.go"))
    tags = "-tags verif" if ("verif" in meta.get("demo_cmd", "") or "go:build verif" in open(demo_src).read()) else ""
    cmd = "go test %s -vet=off -count=1 ./%s/" % (tags, meta["demo_dir"])
    rc1, out1 = sh(cmd, WT)
    res["demo_fails_with_change"] = rc1 != 0
    sh("git apply -R %s" % os.path.join(seed, "patch.diff"), WT)
    rc2, out2 = sh(cmd, WT)
    res["demo_passes_without_change"] = rc2 == 0
    ran.append("%s  -> with change: %s, without: %s" % (cmd, "FAIL" if rc1 else "pass", "pass" if rc2 == 0 else "FAIL"))
    os.remove(os.path.join(demo_dir, "zz_seed_demo_test.go"))
    sh("git apply %s" % os.path.join(seed, "patch.diff"), WT)
    det = {}
    for p in [prop] + extra:
        rc, out = sh("cd %s && VERIF_REPO=%s ./check %s --tier quick" % (ROOT, WT, p))
        det[p] = {0: "MISSED (exit 0)", 1: "detected (VIOLATION)", 2: "inconclusive"}.get(rc, str(rc))
        if rc == 1:
            lines = [l for l in out.splitlines() if "_test.go:" in l and "draw" not in l]
            det[p + "_message"] = (lines[-1].strip() if lines else "")[:600]
        ran.append("VERIF_REPO=<changed tree> ./check %s --tier quick -> exit %d" % (p, rc))
    res["checks"] = det
finally:
    sh("git -C /repo worktree remove --force " + WT); shutil.rmtree(WT, ignore_errors=True)

dst = os.path.join(ROOT, "seeded", name)
os.makedirs(dst, exist_ok=True)
shutil.copyfile(os.path.join(seed, "patch.diff"), os.path.join(dst, "patch.diff"))
shutil.copyfile(os.path.join(seed, "demo_test.go"), os.path.join(dst, "demo_test.go.txt"))
meta["breaks_property"] = prop
meta["confirmed"] = res
meta["what_was_run"] = ran
meta["demo_file_note"] = "demo_test.go.txt is the demonstration; copy it as a _test.go file into demo_dir to run it (kept with a .txt suffix so it is not compiled as part of /verif)"
json.dump(meta, open(os.path.join(dst, "meta.json"), "w"), indent=1)
print(json.dumps(res, indent=1))
