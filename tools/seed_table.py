#!/usr/bin/env python3
"""Prints the markdown table of kept seeds (seeded/<prefix>*) for DESIGN.md."""
import json, glob, sys
prefix = sys.argv[1] if len(sys.argv) > 1 else "seed-"
def clip(s, n): 
    s = " ".join(str(s).replace("|", "/").split())
    return s if len(s) <= n else s[:n] + "..."
print("| seed | file | change | needs | checks |\n|---|---|---|---|---|")
for f in sorted(glob.glob("/verif/seeded/%s*/meta.json" % prefix)):
    d = json.load(open(f))
    name = f.split("/")[-2]
    files = d.get("files_changed") or d.get("files") or []
    if isinstance(files, str): files = [files]
    ch = d["confirmed"]["checks"]
    res = "; ".join("%s %s" % (k, v.split(" ")[0]) for k, v in ch.items() if not k.endswith("_message"))
    if d.get("first_run") == "MISSED":
        res += " (missed at first; check strengthened)"
    print("| %s | %s | %s | %s | %s |" % (name, ", ".join("`%s`" % x for x in files), clip(d.get("summary", ""), 230), clip(d.get("needs", d.get("needs_to_manifest", "")), 160), res))
