import json, collections
d=json.load(open('/verif/sensitivity/mutation.json'))
T={}
def t(key, cls, note): T[key]=(cls,note)
E,D,W,O,H="equivalent","defensive check removed","wording/format only","outside every listed property","hang (reported as inconclusive)"
# --- non-UI
for k in ["internal/deps/deps_anti.go#2","internal/deps/deps_true.go#1","internal/deps/deps_true.go#5","internal/deps/instruction.go#37",
          "internal/emulator/evaluation.go#1","internal/emulator/evaluation.go#2","internal/opcode/matcher.go#14","internal/riscv/instruction.go#13",
          "internal/state/regs.go#1","internal/state/regs.go#2","internal/state/state.go#1","internal/state/state.go#2",
          "internal/exprtransform/possibilities.go#2","internal/consoleui/internal/lines/lines.go#9","internal/consoleui/internal/lines/line.go#13"]:
    t(k,E,"capacity hint of make()/Grow only")
for k in ["internal/elf/block.go#10","internal/elf/block.go#17","internal/elf/block.go#8","internal/elf/block.go#9"]:
    t(k,E,"joinBlocks is dead code (no caller)")
for k,n in [("internal/exprtransform/internal/expreval/arithm.go#92","bitRsh shift>=8 assertion"),("internal/exprtransform/replace.go#29","nil result of the user function"),
          ("internal/riscv/immediate.go#15","signExtend argument assertion"),("internal/riscv/immediate.go#31","signExtend argument assertion"),
          ("internal/riscv/instruction.go#2","newInstruction length assertion (callers check the length)"),("internal/riscv/opcodes.go#18","table self-check at init"),
          ("internal/riscv/opcodes.go#20","table self-check at init"),("internal/riscv/parser.go#18","invalid extension constant"),("internal/state/memory/cut.go#13","cutExpr begin<end assertion"),
          ("internal/riscv/instruction_type.go#53","table self-check at init")]:
    t(k,D,n+": unreachable for the inputs the properties quantify over")
for k,n in [("internal/state/interval/map.go#139","max(a,b)"),("pkg/expr/exprtools/cond.go#0","Eq compares a-b with 0; b-a is zero for the same pairs"),
          ("pkg/expr/exprtools/cond.go#1","BitAnd is commutative"),("pkg/expr/exprtools/cond.go#5","BitXor is commutative"),("pkg/expr/exprtools/masking.go#13","BitAnd is commutative")]:
    t(k,E,"operands swapped: "+n)
t("internal/elf/parser.go#59",E,"p.f = nil after Close: only a second Close would notice")
t("internal/deps/deps_special.go#18",E,"lastMemOrder not reset after a special instruction: the extra edges are implied transitively through that instruction (bounds unchanged)")
t("internal/deps/block.go#4",O,"no special-type dependencies at all: fences/syscalls become movable; C05 is about sequential behaviour (unchanged), C06 only states when a swap must be possible, C07 follows the tool's own dependencies")
t("internal/deps/internal/basicblock/block.go#40",E,"one extra element shifted and then overwritten")
t("internal/deps/internal/basicblock/parse.go#44",E,"differs only for an empty instruction list, which fails either way")
t("internal/emulator/emulator.go#42",E,"WithWidth of a provider answer that already has the requested width (every provider returns it)")
t("internal/exprtransform/constfold.go#27",E,"'changed' flag only decides whether an equal tree is rebuilt")
t("internal/exprtransform/internal/expreval/arithm.go#123",E,"bit shift over the whole buffer: the extra high bytes are zero")
t("internal/exprtransform/internal/expreval/value.go#34",E,"setWidth to the same width")
t("internal/opcode/group.go#20",E,"applyMask iterates over the mask length")
t("internal/parser/parser.go#16",W,"error text")
t("internal/riscv/parser.go#31",W,"error text")
t("internal/parser/parser.go#4",H,"Parse no longer advances: endless loop in C21/C26")
t("internal/riscv/instruction.go#4",E,"bytes beyond the fourth are shifted out of the 32 bit word")
t("internal/riscv/instruction.go#62",O,"every instruction text gets an extra ', 0' operand: C25 demands that everything that influences behaviour is named, not that nothing else is")
t("internal/riscv/opcodes.go#85",E,"pattern bit outside the mask is ignored by the matcher")
t("internal/riscv/opcodes32.go#608",O,"RV32 CSR written 8 bytes wide with a zero-extended 4 byte value: identical when read at XLEN (C01 compares at XLEN)")
t("internal/state/interval/map.go#81",E,"already merged intervals are merged again")
for k in ["internal/state/memory/overlay.go#29"]: t(k,E,"sort comparator on distinct keys")
for k in ["internal/state/memory/overlay.go#31","internal/state/memory/overlay.go#33"]: t(k,E,"first piece OR-ed in twice (shift 0): idempotent")
t("internal/state/memory/sparse.go#27",E,"cutting zero bytes")
t("pkg/expr/exprtools/masking.go#1",E,"both branches agree at 64 bits")
for k in ["pkg/expr/exprtools/masking.go#20","pkg/expr/exprtools/masking.go#21"]: t(k,E,"sign bit indices are 8k-1: 63 and 64 are never both relevant")
# --- UI
U="internal/consoleui/"
t("cmd/mltwist/main.go#6",W,"error text"); t("cmd/mltwist/main.go#8",E,"value returned next to an error is unused")
t(U+"disassemble/commands.go#121",O,"help/info output path"); 
t(U+"disassemble/commands.go#132",O,"'emulate' always reports an error and never enters emulation mode: no property says it must (C22 accepts an error message); C24 would stop on its own precondition")
t(U+"disassemble/commands.go#30",O,"move markers (C23: 'apart from move markers')"); t(U+"disassemble/commands.go#64",O,"bounds markers")
t(U+"emulate/commands.go#0",O,"emulation cursor not refreshed after a step: no property about the emulation cursor")
t(U+"emulate/commands.go#5",O,"step executes and then reports a spurious error message")
for k in ["emulate/commands.go#19","emulate/commands.go#20","emulate/commands.go#8","emulate/commands.go#9"]: t(U+k,O,"'memories' listing output / pause")
t(U+"emulate/reg_view.go#20",E,"sort comparator on distinct keys")
for k in ["emulate/reg_view.go#44","emulate/reg_view.go#57","emulate/reg_view.go#62"]: t(U+k,O,"content/width of register view lines: C24 constrains the number of lines only; no property about register view content")
for k in ["emulate/state.go#10","emulate/state.go#11"]: t(U+k,"blind spot -> fixed","value prompt rejects every valid answer for ever: was a hang (inconclusive); the scripted reader now reports a UI call that consumes more than 5000 lines (count based, not time based)")
t(U+"emulate/state.go#27",E,"zero takes the negative path: 0-0"); t(U+"emulate/state.go#5",O,"error text after an invalid prompt answer (C22 speaks of command lines)")
for k in ["internal/lines/line.go#0","internal/lines/line.go#21","internal/lines/line.go#24","internal/lines/line.go#26","internal/lines/view.go#43","internal/lines/view.go#46","internal/memview/view.go#98"]:
    t(U+k,W,"column widths / separators of a line (C23 compares text and bytes, not layout)")
t(U+"internal/lines/line.go#27",O,"move markers never shown (C23: 'apart from move markers')")
for k in ["internal/lines/line.go#32","internal/lines/line.go#34","internal/lines/line.go#5","internal/lines/lines.go#53","internal/lines/lines.go#54","internal/lines/lines.go#71"]:
    t(U+k,O,"some moves are wrongly REJECTED in the UI: C23 covers what the listing shows after accepted and rejected moves, C07 the acceptance rule at the deps level")
for k in ["internal/lines/view.go#10","internal/lines/view.go#22","internal/lines/view.go#31","internal/view/composite.go#36","internal/view/composite.go#37","internal/view/composite.go#42","internal/view/composite.go#57","internal/view/composite.go#63"]:
    t(U+k,O,"which lines of the window are shown / how spare lines are shared: C24 bounds the count only")
t(U+"internal/lines/view.go#7",O,"smaller declared minimum; rendering at that height works")
t(U+"internal/memview/commands.go#35",E,"leading zero kept for base 8")
t(U+"internal/memview/commands.go#52",O,"memory view 'up' moves down: C31 is about the disassembler, C32 about the address command")
t(U+"internal/memview/line.go#39",O,"leading ellipsis row: C32 requires ellipsis rows between non-consecutive rows")
t(U+"internal/memview/view.go#97",H,"numDigits loops for ever: C24/C32 time out")
for k in ["internal/view/screen.go#0","internal/view/screen.go#1","internal/view/screen.go#13","internal/view/screen.go#14","internal/view/screen.go#15","internal/view/screen.go#2","internal/view/screen.go#6","internal/view/screen.go#7","internal/view/screen.go#8"]:
    t(U+k,O,"Screen.Print needs a terminal: only reached by C26's pseudo-terminal runs (start-up and quit), not by the hooks")
for k in ["standard_commands.go#11","standard_commands.go#12","standard_commands.go#13","standard_commands.go#14","standard_commands.go#7","standard_commands.go#9"]:
    t(U+k,W,"help output")
t(U+"standard_commands.go#15",O,"standard commands (quit, help) missing: unknown command -> error message, which C22 accepts")
for k in ["ui.go#103","ui.go#96"]: t(U+k,O,"UI.Run loop (bypassed by the hooks; C26's pty run would time out = inconclusive)")
t(U+"ui.go#48",O,"command name passed as first argument: commands with arguments fail with an error message")
json.dump({k:{"class":c,"note":n} for k,(c,n) in T.items()},open('/tmp/triage.json','w'),indent=1)
surv=[k for k,v in d.items() if v['status']=='SURVIVED']
missing=[k for k in surv if k not in T]
print(len(surv), "untriaged:", missing)
print(collections.Counter(T[k][0] for k in surv if k in T))

# ---------------- second sample ----------------
T2={}
def t2(key, cls, note): T2[key]=(cls,note)
U="internal/consoleui/"
for k in ["internal/deps/deps_anti.go#3","internal/deps/deps_true.go#4","internal/deps/internal/basicblock/parse.go#17",U+"internal/memview/line.go#77"]:
    t2(k,E,"capacity hint of make() only")
for k in ["internal/elf/block.go#14","internal/elf/block.go#15"]: t2(k,E,"joinBlocks is dead code (no caller)")
t2("cmd/mltwist/main.go#11",W,"error text"); t2("cmd/mltwist/main.go#13",E,"value returned next to an error is unused")
t2("internal/deps/moves.go#3",W,"error text"); t2("internal/elf/memory.go#16",W,"error text")
t2(U+"disassemble/commands.go#62",O,"bounds markers"); t2(U+"disassemble/commands.go#97",W,"message text"); t2(U+"disassemble/commands.go#99",O,"output path of 'find' without a match")
t2(U+"emulate/commands.go#15",E,"sort comparator on distinct keys")
t2(U+"emulate/commands.go#2",O,"every successful emulation step additionally prints an error message (and a failing one is ignored): no property about the emulate-mode step command beyond 'executed or answered with an error message, never a crash'")
for k in ["emulate/reg_view.go#23","emulate/reg_view.go#29","emulate/reg_view.go#31","emulate/reg_view.go#32","emulate/reg_view.go#53"]:
    t2(U+k,O,"content/width of register view lines: C24 constrains the number of lines only; no property about register view content")
t2(U+"format.go#3",O,"a space exactly at the wrap column is not used as the break point: lines are wrapped earlier than necessary, every clause of C29 (indentation, width, characters, no needless split of a word) still holds")
for k in ["internal/lines/line.go#22","internal/lines/view.go#49","internal/memview/view.go#68","internal/memview/view.go#95"]: t2(U+k,W,"column widths / separators of a line")
for k in ["internal/lines/lines.go#34","internal/lines/lines.go#36"]: t2(U+k,O,"move/bounds markers (C23: 'apart from move markers')")
for k in ["internal/lines/line.go#6","internal/lines/lines.go#49","internal/lines/lines.go#63","internal/lines/lines.go#70"]:
    t2(U+k,O,"which moves the UI layer accepts or rejects (C23 covers what the listing shows afterwards, C07 the acceptance rule at the deps level)")
t2(U+"internal/lines/view.go#48",H,"numDigits loops for ever: every UI check times out")
t2(U+"internal/memview/commands.go#40",E,"Sizeof of the same type")
t2(U+"internal/memview/commands.go#54",O,"memory view navigation command rejects every number: C31 is about the disassembler")
t2(U+"internal/memview/view.go#17",O,"larger declared minimum; rendering still fits")
for k in ["internal/view/composite.go#19","internal/view/composite.go#53","internal/view/composite.go#67","internal/view/composite.go#71"]:
    t2(U+k,O,"how spare lines are shared between the parts of a composite view: C24 bounds the count only")
t2(U+"internal/view/composite.go#46",H,"distributeLines loops for ever for some heights: C24/C22/C26 time out")
for k in ["internal/view/screen.go#11","internal/view/screen.go#16"]: t2(U+k,O,"Screen.Print needs a terminal: only reached by C26's pseudo-terminal runs")
for k in ["standard_commands.go#6","ui.go#25"]: t2(U+k,W,"output text")
t2("internal/emulator/emulator.go#23",E,"'jumped' also set by other register stores: only consulted when Jumps() is non-empty, and real jumps always store the instruction pointer")
t2("internal/emulator/emulator.go#57",E,"WithWidth of a provider answer that already has the requested width")
t2("internal/exprtransform/constfold.go#25",E,"'changed' flag only decides whether an equal tree is rebuilt")
t2("internal/exprtransform/equal.go#18",E,"Equal is symmetric")
for k,n in [("internal/exprtransform/internal/expreval/arithm.go#41","bitLsh guard: a shift of 0 bits computes the same, shifts >= 8 are never passed"),
            ("internal/exprtransform/internal/expreval/arithm.go#88","bitRsh guard: a shift of 8 bits is never passed"),
            ("internal/riscv/immediate.go#9","signExtend argument assertion"),("internal/riscv/opcodes.go#21","table self-check at init"),("internal/riscv/opcodes.go#92","table self-check at init"),
            ("internal/riscv/parser.go#17","invalid extension constant"),("internal/riscv/parser.go#3","panic on an inconsistent opcode table"),
            ("internal/state/memory/bytes.go#86","internal consistency panic"),("internal/state/memory/cut.go#12","cutExpr begin<end assertion")]:
    t2(k,D,n+": unreachable for the inputs the properties quantify over")
t2("internal/exprtransform/internal/expreval/value.go#12",E,"setWidth to the same width takes the copying path")
t2("internal/exprtransform/width.go#36",O,"width gadgets are purged less often inside conditionals (value unchanged; C12 demands that removing adapters never changes the value, not that all are removed)")
t2("internal/opcode/bytes.go#22",E,"byteLT of equal slices: only used as a sort comparator and together with byteEQ")
t2("internal/opcode/matcher.go#35",E,"conflict() is only called with the shorter mask first")
t2("internal/riscv/opcodes.go#65",E,"pattern bit outside the mask is ignored by the matcher")
t2("internal/riscv/opcodes32.go#556",O,"RV32 CSR read 8 bytes wide and then used at 4 bytes: identical at XLEN")
t2("internal/riscv/opcodes64.go#1096",O,"zero written 4 bytes wide to an RV64 register: reads back as zero at any width")
t2("internal/riscv/opcodes64.go#745",E,"both swapped arguments are zero")
t2("internal/state/interval/map.go#36",E,"Map.Equal is only used for a fast path of Overlay.Load whose slow path gives the same result (Equal itself is not part of C17's statement)")
t2("internal/state/memory/bytes.go#100",E,"the copied slice already has exactly the needed length")
for k,n in [("internal/state/memory/overlay.go#37","BitOr"),("pkg/expr/exprtools/arithm.go#50","BitAnd"),("pkg/expr/exprtools/masking.go#27","BitAnd")]:
    t2(k,E,"operands of the commutative %s swapped"%n)
t2("pkg/expr/exprtools/masking.go#19",E,"sign bit indices are 8k-1, never 64")
allT={k:{"class":c,"note":n} for k,(c,n) in T.items()}
allT.update({k:{"class":c,"note":n} for k,(c,n) in T2.items()})
json.dump(allT,open('/tmp/triage.json','w'),indent=1)
surv=[k for k,v in d.items() if v['status']=='SURVIVED']
missing=[k for k in surv if k not in allT]
print(len(surv), "untriaged:", missing)
print(collections.Counter(allT[k]["class"] for k in surv if k in allT))

# ---------------- third sample ----------------
T3={}
def t3(key, cls, note): T3[key]=(cls,note)
for k in [U+"internal/lines/line.go#14",U+"internal/lines/lines.go#3",U+"internal/lines/lines.go#7","internal/deps/instruction.go#4","internal/deps/internal/basicblock/parse.go#18"]:
    t3(k,E,"capacity hint of make()/Grow only")
for k in ["internal/elf/block.go#16","internal/elf/block.go#7"]: t3(k,E,"joinBlocks is dead code (no caller)")
t3(U+"internal/lines/view.go#37",E,"ShiftCursor is dead code (no caller)")
for k in [U+"disassemble/commands.go#78","internal/elf/memory.go#15","internal/elf/parser.go#13"]: t3(k,W,"error text")
for k in [U+"disassemble/commands.go#52",U+"internal/lines/lines.go#43"]: t3(k,O,"move/error markers (C23: 'apart from move markers')")
t3(U+"emulate/commands.go#11",O,"'memories' listing prints an extra empty key")
t3(U+"emulate/reg_view.go#34",O,"spacing inside register view lines: C24 constrains the number of lines only")
t3(U+"emulate/state.go#26",E,"zero takes the negative path: 0-0")
t3(U+"internal/lines/lines.go#52",O,"which moves the UI layer accepts or rejects (C23 covers what the listing shows afterwards)")
t3(U+"internal/lines/view.go#25",E,"begin clamped to 0 when it already is 0")
for k in [U+"internal/lines/view.go#38",U+"internal/memview/view.go#9",U+"internal/memview/view.go#24"]: t3(k,W,"column widths / blank lines of the output")
t3(U+"internal/lines/view.go#6",O,"larger declared minimum; rendering still fits")
t3(U+"internal/memview/commands.go#32",E,"leading zero kept for base 8")
for k in [U+"internal/memview/commands.go#46",U+"internal/memview/commands.go#48",U+"internal/memview/commands.go#51"]:
    t3(k,O,"memory view navigation (up/down/goto): C31 is about the disassembler, C32 about the address command")
for k in [U+"internal/view/screen.go#10",U+"internal/view/screen.go#12"]: t3(k,O,"Screen.Print needs a terminal: only reached by C26's pseudo-terminal runs")
t3(U+"standard_commands.go#18",H,"standard commands (quit, help) missing: the checks that leave a mode with 'quit' run into their time budget")
t3(U+"ui.go#21",H,"quit does not pop the mode: the checks that leave a mode with 'quit' run into their time budget")
t3("internal/deps/block.go#18",E,"both indices are validated against the same length")
t3("internal/elf/memory.go#5",E,"sort comparator; equal begins mean overlapping blocks, which are rejected")
t3("internal/emulator/emulator.go#8",D,"MustIP panic on an instruction pointer wider than an address: unreachable for the inputs the properties quantify over")
t3("internal/exprtransform/equal.go#17",E,"Equal is symmetric")
for k in ["internal/exprtransform/internal/expreval/value.go#2","internal/exprtransform/internal/expreval/value.go#5"]: t3(k,E,"both branches / both slice forms agree when the lengths are equal")
t3("internal/exprtransform/width.go#18",E,"'changed' flag only decides whether an equal tree is rebuilt")
t3("internal/exprtransform/width.go#43",O,"width gadgets are purged less often inside conditionals (value unchanged)")
t3("internal/opcode/group.go#19",E,"AND of two equally long slices is commutative")
t3("internal/riscv/opcodes.go#62",D,"table self-check at init: unreachable for the inputs the properties quantify over")
t3("internal/riscv/opcodes32.go#603",E,"operands of the commutative BitOr swapped")
t3("internal/riscv/opcodes64.go#685",E,"addiw: the low 32 bits of a 64 bit sum equal the 32 bit sum")
t3("internal/state/interval/map.go#55",E,"assigning an equal end")
allT.update({k:{"class":c,"note":n} for k,(c,n) in T3.items()})
json.dump(allT,open('/tmp/triage.json','w'),indent=1)
surv=[k for k,v in d.items() if v['status']=='SURVIVED']
missing=[k for k in surv if k not in allT]
print(len(surv), "untriaged:", missing)
print(collections.Counter(allT[k]["class"] for k in surv if k in allT))
