#!/usr/bin/env python3
"""Summarises sensitivity/mutation.json (+ mutation_triage.json) as markdown."""
import json, collections, os
ROOT = os.path.dirname(os.path.dirname(os.path.abspath(__file__)))
d = json.load(open(os.path.join(ROOT, "sensitivity/mutation.json")))
tri = json.load(open(os.path.join(ROOT, "sensitivity/mutation_triage.json")))
def area(f):
    for a in ["internal/consoleui", "cmd", "internal/deps", "internal/exprtransform", "pkg/expr", "internal/state", "internal/emulator",
              "internal/riscv", "internal/opcode", "internal/parser", "internal/elf"]:
        if f.startswith(a): return a
    return "other"
st = collections.Counter(v["status"] for v in d.values())
print("| status | mutants |\n|---|---|")
for k in ["does not compile", "killed by the repository's tests", "killed by check", "SURVIVED"]:
    print("| %s | %d |" % (k, st.get(k, 0)))
print("| total | %d |\n" % len(d))
rows = collections.defaultdict(collections.Counter)
for k, v in d.items():
    rows[area(v["file"])][v["status"]] += 1
print("| area | compile and pass the repository's tests | of these killed by a check | survive |\n|---|---|---|---|")
for a in sorted(rows):
    c = rows[a]; live = c["killed by check"] + c["SURVIVED"]
    print("| %s | %d | %d | %d |" % (a, live, c["killed by check"], c["SURVIVED"]))
by = collections.Counter(v.get("by") for v in d.values() if v["status"] == "killed by check")
print("\nkilled by check, per property: " + ", ".join("%s %d" % (p, n) for p, n in sorted(by.items())))
cls = collections.Counter(); ex = collections.defaultdict(list)
for k, v in d.items():
    if v["status"] == "SURVIVED":
        t = tri.get(k, {"class": "UNTRIAGED", "note": ""})
        cls[t["class"]] += 1; ex[t["class"]].append((k, v, t["note"]))
print("\n| survivors by triage class | mutants |\n|---|---|")
for c, n in cls.most_common(): print("| %s | %d |" % (c, n))
print()
for c in cls:
    print("**%s**\n" % c)
    for k, v, note in sorted(ex[c]):
        print("* `%s` line %d (%s, %s): %s" % (k, v["line"], v["func"] or "-", v["desc"], note))
    print()
