#!/usr/bin/env python3
"""Sensitivity of the checks against the defects they found: every `fixed:`
commit listed in KNOWN_FINDINGS.txt is reverted in a scratch worktree of /repo
(outside /repo and /verif, removed afterwards) and the check of the first
property named on that line must report a VIOLATION (exit 1).

Usage: tools/sensitivity.py [hash ...]     (default: all fixed commits)
Results: sensitivity/fix_reverts.json
"""
import json, os, re, subprocess, sys, shutil

ROOT = os.path.dirname(os.path.dirname(os.path.abspath(__file__)))
WT = "/tmp/mw-sens"
out_path = os.path.join(ROOT, "sensitivity", "fix_reverts.json")

def sh(cmd, **kw):
    return subprocess.run(cmd, shell=True, stdout=subprocess.PIPE, stderr=subprocess.STDOUT, text=True, **kw)

entries = []
for line in open(os.path.join(ROOT, "KNOWN_FINDINGS.txt")):
    m = re.match(r"fixed: property=(\S+) ([0-9a-f]{7,}) (.*)", line)
    if m:
        entries.append((m.group(1).split(","), m.group(2), m.group(3).strip()))
only = set(sys.argv[1:])
results = {}
if os.path.exists(out_path):
    results = json.load(open(out_path))
for props, h, what in entries:
    if only and h not in only:
        continue
    sh("git -C /repo worktree remove --force %s" % WT)
    shutil.rmtree(WT, ignore_errors=True)
    r = sh("git -C /repo worktree add --detach %s HEAD" % WT)
    if r.returncode != 0:
        print(r.stdout); sys.exit(2)
    r = sh("git -C %s revert --no-commit %s" % (WT, h))
    entry = {"properties": props, "what": what}
    if r.returncode != 0:
        entry["result"] = "revert conflicts with later changes; not run"
    else:
        b = sh("cd %s && GOFLAGS=-mod=mod GOPROXY=off GOSUMDB=off GOTOOLCHAIN=local go build ./... " % WT)
        if b.returncode != 0:
            entry["result"] = "reverted tree does not build"
        else:
            det = {}
            for p in props:
                c = sh("cd %s && VERIF_REPO=%s ./check %s --tier quick" % (ROOT, WT, p))
                det[p] = {0: "MISSED (exit 0)", 1: "detected (VIOLATION)", 2: "inconclusive"}.get(c.returncode, str(c.returncode))
            entry["result"] = det
    results[h] = entry
    print(h, entry["result"], flush=True)
    json.dump(results, open(out_path, "w"), indent=1)
sh("git -C /repo worktree remove --force %s" % WT)
shutil.rmtree(WT, ignore_errors=True)
