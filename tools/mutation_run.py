#!/usr/bin/env python3
"""Bulk sensitivity experiment (DESIGN.md section 10).

For every sampled single-site mutation (tools/mutator, go/ast based) of the
non-test source files the properties are anchored in:
  1. the mutant must compile (go build ./...), otherwise it is dropped;
  2. the repository's own test suite is run (go test ./..., cached for the
     packages the mutant does not touch); mutants it kills are only counted;
  3. survivors of the suite are run against the checks: first the checks of the
     properties anchored in the mutated file, then - if those stay silent - all
     other checks (quick tier case counts, one shard, seed 0).
Everything happens in scratch worktrees /tmp/mut-w<k> (removed at the end).
Results: sensitivity/mutation.json (one record per mutant, with the diff).

usage: tools/mutation_run.py [--workers N] [--per-file N] [--files f1,f2,...] [--seed N] [--all-checks]
"""
import argparse, collections, glob, hashlib, json, os, random, re, shutil, subprocess, sys, threading, time

ROOT = os.path.dirname(os.path.dirname(os.path.abspath(__file__)))
HARNESS = "/tmp/mut-harness"  # private snapshot of the harness, so that edits made meanwhile do not interfere
ENVS = {"GOFLAGS": "-mod=mod", "GOPROXY": "off", "GOSUMDB": "off", "GOTOOLCHAIN": "local"}
OUT = os.path.join(ROOT, "sensitivity", "mutation.json")

ap = argparse.ArgumentParser()
ap.add_argument("--workers", type=int, default=6)
ap.add_argument("--per-file", type=int, default=12)
ap.add_argument("--files", default="")
ap.add_argument("--seed", type=int, default=1)
ap.add_argument("--all-checks", action="store_true", help="run every check on survivors of the anchored ones")
ap.add_argument("--retest-survivors", action="store_true", help="only re-run the recorded SURVIVED mutants (with --all-checks: against all checks)")
ap.add_argument("--related", action="store_true", help="on survivors also run the checks of properties about the same subsystem")
ap.add_argument("--full-quick", action="store_true", help="run all shards of the quick tier instead of shard 0 only")
ap.add_argument("--only", default="", help="comma separated mutant keys to (re)run")
args = ap.parse_args()

def env(extra=None):
    e = dict(os.environ); e.update(ENVS)
    if extra: e.update(extra)
    return e

def sh(cmd, cwd=None, extra=None, timeout=1800):
    try:
        r = subprocess.run(cmd, shell=isinstance(cmd, str), cwd=cwd, env=env(extra), stdout=subprocess.PIPE,
                           stderr=subprocess.STDOUT, text=True, timeout=timeout)
        return r.returncode, r.stdout
    except subprocess.TimeoutExpired as ex:
        return -9, "TIMEOUT"

# anchored files -> properties
anch = collections.defaultdict(list)
for l in open(os.path.join(ROOT, "properties.jsonl")):
    p = json.loads(l)
    for f in p["anchors"]["files"]:
        if os.path.isfile("/repo/" + f) and not f.endswith("_test.go"):
            anch[f].append(p["id"])
files = sorted(anch)
if args.files:
    files = [f for f in args.files.split(",") if f]
    for f in files:
        anch.setdefault(f, [])
checks = json.load(open(os.path.join(ROOT, "checks.json")))

shutil.rmtree(HARNESS, ignore_errors=True)
shutil.copytree(os.path.join(ROOT, "harness"), HARNESS, ignore=shutil.ignore_patterns(".bin", ".run"))
mutator = "/tmp/mutator-bin"
rc, out = sh(["go", "build", "-o", mutator, "."], cwd=os.path.join(ROOT, "tools", "mutator"))
assert rc == 0, out

rng = random.Random(args.seed)
work = []
for f in files:
    rc, out = sh([mutator, "list", "/repo/" + f])
    sites = [json.loads(x) for x in out.splitlines() if x.startswith("{")]
    # at most one mutation per (line, kind) and a per-file sample spread over kinds
    seen, uniq = set(), []
    for s in sites:
        k = (s["line"], s["kind"], s["desc"])
        if k not in seen:
            seen.add(k); uniq.append(s)
    rng.shuffle(uniq)
    bykind = collections.defaultdict(list)
    for s in uniq: bykind[s["kind"]].append(s)
    pick = []
    while len(pick) < args.per_file and any(bykind.values()):
        for k in sorted(bykind):
            if bykind[k] and len(pick) < args.per_file:
                pick.append(bykind[k].pop())
    for s in pick:
        work.append((f, s))
results = json.load(open(OUT)) if os.path.exists(OUT) else {}
if args.retest_survivors or args.only:
    want = set(k for k, r in results.items() if r["status"] == "SURVIVED") if args.retest_survivors else set(args.only.split(","))
    work = []
    for key in sorted(want):
        f, idx = key.rsplit("#", 1)
        rc, out = sh([mutator, "list", "/repo/" + f])
        sites = [json.loads(x) for x in out.splitlines() if x.startswith("{")]
        work.append((f, sites[int(idx)]))
        anch.setdefault(f, [])
        results.pop(key, None)
print("files %d, mutants %d" % (len(files), len(work)), flush=True)

lock = threading.Lock()
queue = collections.deque(work)

RELATED = [
    ("internal/consoleui", "C22 C23 C24 C26 C29 C30 C31 C32"), ("cmd/", "C26 C22"),
    ("internal/deps", "C05 C06 C07 C08 C23 C31 C26"),
    ("internal/exprtransform", "C09 C10 C11 C12 C13 C28 C01 C03 C18"), ("pkg/expr", "C27 C11 C12 C10 C09 C01 C03 C28"),
    ("internal/state", "C14 C15 C16 C17 C18 C03 C04 C32"), ("internal/emulator", "C03 C04 C05 C22"),
    ("internal/riscv", "C01 C02 C25 C03 C21 C26"), ("internal/opcode", "C19 C02 C21"), ("internal/parser", "C21 C26 C03"),
    ("internal/elf", "C20 C26 C21"),
]

def related(f):
    out = []
    for pre, ps in RELATED:
        if f.startswith(pre):
            out += ps.split()
    return out

def rapid_seed(verif_seed, shard, pid):
    h = 0
    for ch in pid:
        h = (h * 131 + ord(ch)) & 0x7fffffff
    return ((verif_seed * 2654435761 + shard * 40503 + h * 7919) % (1 << 31)) | 1

def run_check(binary, pid, wt, scr):
    """Runs the quick tier of one check: shard 0 only in the first pass, all
    shards of the quick tier (as ./check does) with --full-quick."""
    nsh = int(checks[pid]["quick"].get("shards", 1)) if args.full_quick else 1
    verdict = ("silent", "")
    for k in range(nsh):
        st, msg = run_shard(binary, pid, wt, scr, k, nsh)
        if st == "killed":
            return st, msg
        if st == "inconclusive":
            verdict = (st, msg)
    return verdict

def run_shard(binary, pid, wt, scr, k, nsh):
    cfg = checks[pid]
    d = os.path.join(scr, pid)
    shutil.rmtree(d, ignore_errors=True); os.makedirs(d)
    cmd = [binary, "-test.run", "^%s$" % cfg["test"], "-test.count=1", "-test.timeout", "600s",
           "-rapid.checks=%d" % cfg["quick"]["checks"], "-rapid.seed=%d" % rapid_seed(0, k, pid), "-rapid.shrinktime=5s"]
    rc, out = sh(cmd, cwd=d, extra={"VERIF_TIER": "quick", "VERIF_SEED": "0", "VERIF_SHARD": str(k), "VERIF_SHARDS": str(nsh),
                                    "VERIF_REPO": wt, "VERIF_ROOT": ROOT, "VERIF_SCRATCH": d}, timeout=900)
    shutil.rmtree(d, ignore_errors=True)
    if rc == 0:
        return "silent", ""
    if rc < 0 or "panic: test timed out" in out:
        return "inconclusive", ""
    if re.search(r"^\s*--- FAIL", out, re.M):
        lines = [l.strip() for l in out.splitlines() if "_test.go:" in l and "[rapid] draw" not in l]
        return "killed", (lines[-1] if lines else "")[:300]
    return "inconclusive", out[-300:]

def worker(k):
    wt = "/tmp/mut-w%d" % k
    scr = "/tmp/mut-s%d" % k
    sh("git -C /repo worktree remove --force %s; rm -rf %s %s; git -C /repo worktree add --detach %s HEAD" % (wt, wt, scr, wt))
    os.makedirs(scr, exist_ok=True)
    mod = os.path.join(scr, "alt.mod")
    txt = open(os.path.join(HARNESS, "go.mod")).read()
    txt = re.sub(r"replace mltwist => \S+", "replace mltwist => %s" % wt, txt)
    open(mod, "w").write(txt)
    shutil.copyfile(os.path.join(HARNESS, "go.sum"), os.path.join(scr, "alt.sum"))
    binary = os.path.join(scr, "checks.test")
    while True:
        with lock:
            if not queue: break
            f, s = queue.popleft()
        key = "%s#%d" % (f, s["index"])
        if key in results:
            continue
        rec = {"file": f, "line": s["line"], "func": s["func"], "kind": s["kind"], "desc": s["desc"], "anchored": anch.get(f, [])}
        path = os.path.join(wt, f)
        orig = open(path).read()
        try:
            rc, mutated = sh([mutator, "apply", "/repo/" + f, str(s["index"])])
            rc0, base = sh([mutator, "apply", "/repo/" + f, "-1"])
            open(path, "w").write(mutated)
            a, b = os.path.join(scr, "a.go"), os.path.join(scr, "b.go")
            open(a, "w").write(base); open(b, "w").write(mutated)
            rec["diff"] = sh("diff -U1 a.go b.go | tail -n +3", cwd=scr)[1][:1500]
            rc, out = sh("go build ./... && go build -tags verif ./...", cwd=wt)
            if rc != 0:
                rec["status"] = "does not compile"
            else:
                rc, out = sh("go test -vet=off ./... 2>&1 | grep -v '^ok\\|no test files'", cwd=wt, timeout=2400)
                if out.strip() != "":
                    rec["status"] = "killed by the repository's tests"
                    m = re.search(r"^(FAIL\s+\S+|--- FAIL: \S+)", out, re.M)
                    rec["by"] = m.group(1) if m else out.strip()[:120]
                else:
                    rc, out = sh(["go", "test", "-modfile", mod, "-tags", "verif", "-c", "-o", binary, "./checks/"], cwd=HARNESS)
                    if rc != 0:
                        rec["status"] = "harness does not build"; rec["by"] = out[-300:]
                    else:
                        order = list(anch.get(f, []))
                        if args.related:
                            order += [p for p in related(f) if p not in order]
                        if args.all_checks:
                            order += [p for p in sorted(checks) if p not in order]
                        rec["status"] = "SURVIVED"
                        rec["checks_run"] = []
                        for pid in order:
                            st, msg = run_check(binary, pid, wt, scr)
                            rec["checks_run"].append(pid + ":" + st)
                            if st == "killed":
                                rec["status"] = "killed by check"; rec["by"] = pid; rec["message"] = msg
                                break
        finally:
            open(path, "w").write(orig)
        with lock:
            results[key] = rec
            tmp = OUT + ".tmp"
            json.dump(results, open(tmp, "w"), indent=1); os.replace(tmp, OUT)
            print("%-60s %-16s %-22s %s %s" % (key, s["kind"], s["desc"], rec["status"], rec.get("by", "")), flush=True)
    sh("git -C /repo worktree remove --force %s; rm -rf %s %s" % (wt, wt, scr))

ts = [threading.Thread(target=worker, args=(k,)) for k in range(args.workers)]
for t in ts: t.start()
for t in ts: t.join()
sh("git -C /repo worktree prune")
shutil.rmtree(HARNESS, ignore_errors=True)
c = collections.Counter(r["status"] for r in results.values())
print(dict(c))
