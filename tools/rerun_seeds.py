#!/usr/bin/env python3
"""Re-runs the checks against every kept seeded change (seeded/*/patch.diff)
in scratch worktrees and reports which are detected. Results are written to
sensitivity/seed_recheck.json. With VERIF_SEED=N the checks run with that seed and the results go to
sensitivity/seed_recheck_sN.json. Usage: tools/rerun_seeds.py [seed-name ...]"""
import glob, json, os, shutil, subprocess, sys
ROOT = os.path.dirname(os.path.dirname(os.path.abspath(__file__)))
ENV = "export GOFLAGS=-mod=mod GOPROXY=off GOSUMDB=off GOTOOLCHAIN=local; "
def sh(cmd, cwd=None):
    r = subprocess.run(ENV + cmd, shell=True, cwd=cwd, stdout=subprocess.PIPE, stderr=subprocess.STDOUT, text=True)
    return r.returncode, r.stdout
SEED = os.environ.get("VERIF_SEED", "0")
out_path = os.path.join(ROOT, "sensitivity", "seed_recheck.json" if SEED == "0" else "seed_recheck_s%s.json" % SEED)
res = json.load(open(out_path)) if os.path.exists(out_path) else {}
only = set(sys.argv[1:])
for d in sorted(glob.glob(os.path.join(ROOT, "seeded", "seed*"))):
    name = os.path.basename(d)
    if only and name not in only:
        continue
    meta = json.load(open(os.path.join(d, "meta.json")))
    prop = meta["breaks_property"]
    wt = "/tmp/rs-" + name
    sh("git -C /repo worktree remove --force " + wt); shutil.rmtree(wt, ignore_errors=True)
    rc, out = sh("git -C /repo worktree add --detach %s HEAD" % wt)
    try:
        rc, out = sh("git apply %s" % os.path.join(d, "patch.diff"), wt)
        if rc != 0:
            res[name] = {"property": prop, "result": "patch no longer applies to /repo HEAD"}
        else:
            rc, out = sh("cd %s && VERIF_REPO=%s ./check %s --tier quick" % (ROOT, wt, prop))
            res[name] = {"property": prop, "result": {0: "MISSED", 1: "detected", 2: "inconclusive"}.get(rc, str(rc)),
                         "repo_head": subprocess.getoutput("git -C /repo rev-parse --short HEAD")}
    finally:
        sh("git -C /repo worktree remove --force " + wt); shutil.rmtree(wt, ignore_errors=True)
    print(name, res[name]["result"], flush=True)
    json.dump(res, open(out_path, "w"), indent=1)
