#!/usr/bin/env python3
"""Prepares scratch worktrees for a round of independently seeded changes.

  tools/seeding/prepare.py <prefix> <focus.json> [ids...]

For every property id in focus.json a detached worktree /tmp/<prefix>-<id> of
/repo HEAD is created with SEED/property.txt and SEED/INSTRUCTIONS.md (the brief
a fresh sub-agent gets: the property text and the rules - nothing from /verif's
checks). Earlier seeds' sites are listed only as 'already used, pick another'."""
import json, os, subprocess, sys, glob
ROOT = os.path.dirname(os.path.dirname(os.path.dirname(os.path.abspath(__file__))))
prefix, focus = sys.argv[1], json.load(open(sys.argv[2]))
only = set(sys.argv[3:])
tmpl = open(os.path.join(ROOT, "tools/seeding/INSTRUCTIONS.tmpl")).read()
for l in open(os.path.join(ROOT, "properties.jsonl")):
    p = json.loads(l)
    if p["id"] not in focus or (only and p["id"] not in only):
        continue
    wt = "/tmp/%s-%s" % (prefix, p["id"])
    subprocess.run("git -C /repo worktree remove --force %s; rm -rf %s; git -C /repo worktree add --detach %s HEAD" % (wt, wt, wt), shell=True, stdout=subprocess.DEVNULL, stderr=subprocess.DEVNULL)
    d = wt + "/SEED/"
    os.makedirs(d, exist_ok=True)
    open(d + "property.txt", "w").write("%s — %s\n\n%s\n\nQuantified over: %s\n\nAnchored in files: %s\n" % (
        p["id"], p["title"], p["statement"], p["quantifier"]["text"], ", ".join(p["anchors"]["files"])))
    open(d + "INSTRUCTIONS.md", "w").write(tmpl.format(wt=wt, focus=focus[p["id"]]))
    print("prepared", wt)
