//go:build linux

// Package ptyrun runs a program under a pseudo terminal so that code calling
// terminal.GetSize(0) works, feeds it scripted input and collects its output.
package ptyrun

import (
	"bytes"
	"fmt"
	"io"
	"os"
	"os/exec"
	"syscall"
	"time"
	"unsafe"
)

// Result of one run.
type Result struct {
	// Stdout is everything written to the terminal, Stderr is captured
	// separately through a pipe.
	Stdout, Stderr []byte
	ExitCode       int
	Signaled       bool
	TimedOut       bool
}

func ioctl(fd uintptr, req uintptr, arg unsafe.Pointer) error {
	_, _, e := syscall.Syscall(syscall.SYS_IOCTL, fd, req, uintptr(arg))
	if e != 0 {
		return e
	}
	return nil
}

type winsize struct{ rows, cols, x, y uint16 }

// Run executes argv under a pty of the given size, writes input to the
// terminal (after a short delay per chunk) and waits at most timeout.
func Run(argv []string, input [][]byte, rows, cols int, timeout time.Duration, env []string) (*Result, error) {
	ptmx, err := os.OpenFile("/dev/ptmx", os.O_RDWR, 0)
	if err != nil {
		return nil, err
	}
	defer ptmx.Close()
	var unlock int32
	if err := ioctl(ptmx.Fd(), syscall.TIOCSPTLCK, unsafe.Pointer(&unlock)); err != nil {
		return nil, fmt.Errorf("unlockpt: %w", err)
	}
	var n uint32
	if err := ioctl(ptmx.Fd(), syscall.TIOCGPTN, unsafe.Pointer(&n)); err != nil {
		return nil, fmt.Errorf("ptsname: %w", err)
	}
	slave, err := os.OpenFile(fmt.Sprintf("/dev/pts/%d", n), os.O_RDWR|syscall.O_NOCTTY, 0)
	if err != nil {
		return nil, err
	}
	ws := winsize{rows: uint16(rows), cols: uint16(cols)}
	if err := ioctl(ptmx.Fd(), syscall.TIOCSWINSZ, unsafe.Pointer(&ws)); err != nil {
		slave.Close()
		return nil, fmt.Errorf("set window size: %w", err)
	}

	var stderr bytes.Buffer
	cmd := exec.Command(argv[0], argv[1:]...)
	cmd.Stdin, cmd.Stdout = slave, slave
	cmd.Stderr = &stderr
	cmd.Env = env
	cmd.SysProcAttr = &syscall.SysProcAttr{Setsid: true, Setctty: true, Ctty: 0}
	if err := cmd.Start(); err != nil {
		slave.Close()
		return nil, err
	}
	slave.Close()

	var out bytes.Buffer
	readDone := make(chan struct{})
	go func() {
		io.Copy(&out, ptmx) // ends with EIO when the child side closes
		close(readDone)
	}()
	go func() {
		for _, chunk := range input {
			time.Sleep(15 * time.Millisecond)
			ptmx.Write(chunk)
		}
	}()

	waitDone := make(chan error, 1)
	go func() { waitDone <- cmd.Wait() }()
	res := &Result{}
	select {
	case <-waitDone:
	case <-time.After(timeout):
		res.TimedOut = true
		cmd.Process.Kill()
		<-waitDone
	}
	// The reader ends with EIO once the child side of the terminal is closed,
	// after everything the child wrote has been delivered. Never look at the
	// buffer before the reader is done (that would lose output on a busy
	// machine); as a last resort close the master side to unblock it.
	select {
	case <-readDone:
	case <-time.After(20 * time.Second):
		ptmx.Close()
		<-readDone
	}
	res.Stdout, res.Stderr = out.Bytes(), stderr.Bytes()
	if st, ok := cmd.ProcessState.Sys().(syscall.WaitStatus); ok {
		res.Signaled = st.Signaled()
		res.ExitCode = st.ExitStatus()
	}
	return res, nil
}
