// Package rvref is an independent RISC-V reference (RV32/RV64 I + Zicsr +
// Zifencei, M, A) written from the unprivileged ISA manual. It shares nothing
// with mltwist/internal/riscv: own decode table, encoder and interpreter.
//
// Conventions taken from the property statements (C01, C02): fence requires
// fm=0, rd=0, rs1=0 (pred/succ free); fence.i, ecall, ebreak are single
// encodings with all other fields zero; lr requires rs2=0; aq/rl bits are free;
// shift-immediates require the reserved upper immediate bits to be zero;
// store-conditional always succeeds (writes 0); fence, fence.i, ecall, ebreak
// change no state.
package rvref

import "strings"

// Format is the operand layout of an instruction.
type Format int

const (
	FmtR Format = iota
	FmtI
	FmtS
	FmtB
	FmtU
	FmtJ
	FmtShift // rd, rs1, shamt
	FmtAMO   // rd, rs1, rs2, aq, rl
	FmtLR    // rd, rs1, aq, rl
	FmtFence // pred, succ
	FmtNone  // fixed encoding
	FmtCSR   // rd, rs1, csr
	FmtCSRI  // rd, uimm, csr
	FmtLoad  // like I
	FmtJALR  // like I
)

// Cfg is a parser configuration.
type Cfg struct {
	XLEN int // 32 or 64
	M, A bool
}

func (c Cfg) String() string {
	s := "rv32i"
	if c.XLEN == 64 {
		s = "rv64i"
	}
	if c.M {
		s += "m"
	}
	if c.A {
		s += "a"
	}
	return s
}

// AllCfgs lists the 8 configurations.
func AllCfgs() []Cfg {
	var out []Cfg
	for _, x := range []int{32, 64} {
		for _, m := range []bool{false, true} {
			for _, a := range []bool{false, true} {
				out = append(out, Cfg{x, m, a})
			}
		}
	}
	return out
}

// Ins describes one instruction encoding.
type Ins struct {
	Name  string
	Mask  uint32
	Match uint32
	Fmt   Format
	// Ext is 'I', 'M' or 'A'.
	Ext byte
	// Only64 instructions exist in RV64 only; Only32 in RV32 only (shift
	// immediates with a 5 bit shamt field).
	Only64 bool
	Only32 bool
	// ShamtBits is 5 or 6 for FmtShift.
	ShamtBits int
}

func rtype(name string, f7, f3, opc uint32, ext byte, only64 bool) Ins {
	return Ins{Name: name, Mask: 0xfe00707f, Match: f7<<25 | f3<<12 | opc, Fmt: FmtR, Ext: ext, Only64: only64}
}

func itype(name string, f3, opc uint32, fm Format, only64 bool) Ins {
	return Ins{Name: name, Mask: 0x0000707f, Match: f3<<12 | opc, Fmt: fm, Ext: 'I', Only64: only64}
}

func amo(name string, f5, f3 uint32, only64 bool) Ins {
	return Ins{Name: name, Mask: 0xf800707f, Match: f5<<27 | f3<<12 | 0x2f, Fmt: FmtAMO, Ext: 'A', Only64: only64}
}

func buildTable() []Ins {
	t := []Ins{
		{Name: "lui", Mask: 0x7f, Match: 0x37, Fmt: FmtU, Ext: 'I'},
		{Name: "auipc", Mask: 0x7f, Match: 0x17, Fmt: FmtU, Ext: 'I'},
		{Name: "jal", Mask: 0x7f, Match: 0x6f, Fmt: FmtJ, Ext: 'I'},
		itype("jalr", 0, 0x67, FmtJALR, false),
	}
	for i, n := range []string{"beq", "bne", "", "", "blt", "bge", "bltu", "bgeu"} {
		if n != "" {
			t = append(t, Ins{Name: n, Mask: 0x707f, Match: uint32(i)<<12 | 0x63, Fmt: FmtB, Ext: 'I'})
		}
	}
	for i, n := range []string{"lb", "lh", "lw", "ld", "lbu", "lhu", "lwu"} {
		t = append(t, itype(n, uint32(i), 0x03, FmtLoad, n == "ld" || n == "lwu"))
	}
	for i, n := range []string{"sb", "sh", "sw", "sd"} {
		t = append(t, Ins{Name: n, Mask: 0x707f, Match: uint32(i)<<12 | 0x23, Fmt: FmtS, Ext: 'I', Only64: n == "sd"})
	}
	for i, n := range []string{"addi", "", "slti", "sltiu", "xori", "", "ori", "andi"} {
		if n != "" {
			t = append(t, itype(n, uint32(i), 0x13, FmtI, false))
		}
	}
	// shift immediates
	sh := func(name string, arith bool, f3, opc uint32, bits int, only64, only32 bool) Ins {
		mask := uint32(0x707f) | (^uint32(0) << (20 + uint(bits)))
		match := f3<<12 | opc
		if arith {
			match |= 1 << 30
		}
		return Ins{Name: name, Mask: mask, Match: match, Fmt: FmtShift, Ext: 'I', Only64: only64, Only32: only32, ShamtBits: bits}
	}
	t = append(t,
		sh("slli", false, 1, 0x13, 5, false, true), sh("srli", false, 5, 0x13, 5, false, true), sh("srai", true, 5, 0x13, 5, false, true),
		sh("slli", false, 1, 0x13, 6, true, false), sh("srli", false, 5, 0x13, 6, true, false), sh("srai", true, 5, 0x13, 6, true, false),
		sh("slliw", false, 1, 0x1b, 5, true, false), sh("srliw", false, 5, 0x1b, 5, true, false), sh("sraiw", true, 5, 0x1b, 5, true, false),
	)
	t = append(t, itype("addiw", 0, 0x1b, FmtI, true))
	t = append(t,
		rtype("add", 0, 0, 0x33, 'I', false), rtype("sub", 0x20, 0, 0x33, 'I', false), rtype("sll", 0, 1, 0x33, 'I', false),
		rtype("slt", 0, 2, 0x33, 'I', false), rtype("sltu", 0, 3, 0x33, 'I', false), rtype("xor", 0, 4, 0x33, 'I', false),
		rtype("srl", 0, 5, 0x33, 'I', false), rtype("sra", 0x20, 5, 0x33, 'I', false), rtype("or", 0, 6, 0x33, 'I', false),
		rtype("and", 0, 7, 0x33, 'I', false),
		rtype("addw", 0, 0, 0x3b, 'I', true), rtype("subw", 0x20, 0, 0x3b, 'I', true), rtype("sllw", 0, 1, 0x3b, 'I', true),
		rtype("srlw", 0, 5, 0x3b, 'I', true), rtype("sraw", 0x20, 5, 0x3b, 'I', true),
	)
	for i, n := range []string{"mul", "mulh", "mulhsu", "mulhu", "div", "divu", "rem", "remu"} {
		t = append(t, rtype(n, 1, uint32(i), 0x33, 'M', false))
	}
	for i, n := range []string{"mulw", "", "", "", "divw", "divuw", "remw", "remuw"} {
		if n != "" {
			t = append(t, rtype(n, 1, uint32(i), 0x3b, 'M', true))
		}
	}
	// fence: fm(31:28)=0, pred/succ free, rs1=0, f3=0, rd=0
	t = append(t, Ins{Name: "fence", Mask: 0xf00fffff, Match: 0x0000000f, Fmt: FmtFence, Ext: 'I'})
	t = append(t, Ins{Name: "fence.i", Mask: 0xffffffff, Match: 0x0000100f, Fmt: FmtNone, Ext: 'I'})
	t = append(t, Ins{Name: "ecall", Mask: 0xffffffff, Match: 0x00000073, Fmt: FmtNone, Ext: 'I'})
	t = append(t, Ins{Name: "ebreak", Mask: 0xffffffff, Match: 0x00100073, Fmt: FmtNone, Ext: 'I'})
	for i, n := range []string{"", "csrrw", "csrrs", "csrrc", "", "csrrwi", "csrrsi", "csrrci"} {
		if n != "" {
			f := FmtCSR
			if i >= 5 {
				f = FmtCSRI
			}
			t = append(t, Ins{Name: n, Mask: 0x707f, Match: uint32(i)<<12 | 0x73, Fmt: f, Ext: 'I'})
		}
	}
	for _, sz := range []struct {
		suf string
		f3  uint32
		o64 bool
	}{{".w", 2, false}, {".d", 3, true}} {
		t = append(t, Ins{Name: "lr" + sz.suf, Mask: 0xf9f0707f, Match: 2<<27 | sz.f3<<12 | 0x2f, Fmt: FmtLR, Ext: 'A', Only64: sz.o64})
		t = append(t, amo("sc"+sz.suf, 3, sz.f3, sz.o64), amo("amoswap"+sz.suf, 1, sz.f3, sz.o64),
			amo("amoadd"+sz.suf, 0, sz.f3, sz.o64), amo("amoxor"+sz.suf, 4, sz.f3, sz.o64),
			amo("amoand"+sz.suf, 12, sz.f3, sz.o64), amo("amoor"+sz.suf, 8, sz.f3, sz.o64),
			amo("amomin"+sz.suf, 16, sz.f3, sz.o64), amo("amomax"+sz.suf, 20, sz.f3, sz.o64),
			amo("amominu"+sz.suf, 24, sz.f3, sz.o64), amo("amomaxu"+sz.suf, 28, sz.f3, sz.o64))
	}
	return t
}

var table = buildTable()

// Table returns all instruction encodings of cfg.
func Table(cfg Cfg) []*Ins {
	var out []*Ins
	for i := range table {
		in := &table[i]
		if in.Only64 && cfg.XLEN != 64 {
			continue
		}
		if in.Only32 && cfg.XLEN != 32 {
			continue
		}
		if in.Ext == 'M' && !cfg.M {
			continue
		}
		if in.Ext == 'A' && !cfg.A {
			continue
		}
		out = append(out, in)
	}
	return out
}

// Decode returns the instruction of cfg encoded by word, or nil.
func Decode(word uint32, cfg Cfg) *Ins {
	var found *Ins
	for _, in := range Table(cfg) {
		if word&in.Mask == in.Match {
			if found != nil {
				panic("rvref: ambiguous reference table: " + found.Name + " / " + in.Name)
			}
			found = in
		}
	}
	return found
}

// Lookup finds an instruction by (case-insensitive) name in cfg.
func Lookup(name string, cfg Cfg) *Ins {
	for _, in := range Table(cfg) {
		if strings.EqualFold(in.Name, name) {
			return in
		}
	}
	return nil
}
