package rvref

import (
	"math/bits"
)

// Memory is byte addressed memory of the reference machine.
type Memory interface {
	Read(addr uint64) byte
	Write(addr uint64, b byte)
}

// Machine is the architectural state.
type Machine struct {
	Cfg Cfg
	X   [32]uint64
	PC  uint64
	CSR map[uint32]uint64
	Mem Memory
}

// MemAccess records one memory access of a step.
type MemAccess struct {
	Addr  uint64
	Width int
	Value uint64
}

// Trace records what one step read and wrote.
type Trace struct {
	Ins       *Ins
	RegsRead  map[uint32]uint64 // x registers read (x0 excluded) -> value
	RegsWrite map[uint32]uint64 // x registers written (x0 excluded)
	CSRRead   map[uint32]uint64
	CSRWrite  map[uint32]uint64
	Loads     []MemAccess
	Stores    []MemAccess
	Jumped    bool // the instruction writes the pc (jump or branch, taken or not)
	NextPC    uint64
}

func (m *Machine) mask() uint64 {
	if m.Cfg.XLEN == 32 {
		return 0xffffffff
	}
	return ^uint64(0)
}

func (m *Machine) sx(v uint64) int64 {
	if m.Cfg.XLEN == 32 {
		return int64(int32(uint32(v)))
	}
	return int64(v)
}

func sext32(v uint64) uint64 { return uint64(int64(int32(uint32(v)))) }

func (m *Machine) load(addr uint64, w int, tr *Trace) uint64 {
	var v uint64
	for i := w - 1; i >= 0; i-- {
		v = v<<8 | uint64(m.Mem.Read((addr+uint64(i))&m.mask()))
	}
	tr.Loads = append(tr.Loads, MemAccess{addr & m.mask(), w, v})
	return v
}

func (m *Machine) store(addr uint64, w int, v uint64, tr *Trace) {
	if w < 8 {
		v &= 1<<(8*uint(w)) - 1
	}
	tr.Stores = append(tr.Stores, MemAccess{addr & m.mask(), w, v})
}

func mulhu64(a, b uint64) uint64 { hi, _ := bits.Mul64(a, b); return hi }

func mulh64(a, b int64) uint64 {
	hi, _ := bits.Mul64(uint64(a), uint64(b))
	if a < 0 {
		hi -= uint64(b)
	}
	if b < 0 {
		hi -= uint64(a)
	}
	return hi
}

func mulhsu64(a int64, b uint64) uint64 {
	hi, _ := bits.Mul64(uint64(a), b)
	if a < 0 {
		hi -= b
	}
	return hi
}

// Step executes the instruction word at m.PC. It returns nil if the word is
// not an instruction of the configuration. Register and memory writes are
// applied to m after all reads, as the architecture prescribes.
func (m *Machine) Step(word uint32) *Trace {
	in := Decode(word, m.Cfg)
	if in == nil {
		return nil
	}
	f := Dec(in, word)
	tr := &Trace{Ins: in, RegsRead: map[uint32]uint64{}, RegsWrite: map[uint32]uint64{},
		CSRRead: map[uint32]uint64{}, CSRWrite: map[uint32]uint64{}}
	msk := m.mask()
	xlen := uint(m.Cfg.XLEN)
	pc := m.PC & msk

	rx := func(r uint32) uint64 {
		if r == 0 {
			return 0
		}
		v := m.X[r] & msk
		tr.RegsRead[r] = v
		return v
	}
	var rdVal uint64
	rdSet := false
	wr := func(v uint64) { rdVal, rdSet = v&msk, true }
	next := (pc + 4) & msk
	imm := uint64(f.Imm)

	name := in.Name
	switch name {
	case "lui":
		wr(imm)
	case "auipc":
		wr(pc + imm)
	case "jal":
		wr(pc + 4)
		next = (pc + imm) & msk
		tr.Jumped = true
	case "jalr":
		t := (rx(f.Rs1) + imm) &^ 1
		wr(pc + 4)
		next = t & msk
		tr.Jumped = true
	case "beq", "bne", "blt", "bge", "bltu", "bgeu":
		a, b := rx(f.Rs1), rx(f.Rs2)
		var take bool
		switch name {
		case "beq":
			take = a == b
		case "bne":
			take = a != b
		case "blt":
			take = m.sx(a) < m.sx(b)
		case "bge":
			take = m.sx(a) >= m.sx(b)
		case "bltu":
			take = a < b
		case "bgeu":
			take = a >= b
		}
		if take {
			next = (pc + imm) & msk
		}
		tr.Jumped = true
	case "lb", "lh", "lw", "ld", "lbu", "lhu", "lwu":
		addr := (rx(f.Rs1) + imm) & msk
		switch name {
		case "lb":
			wr(uint64(int64(int8(m.load(addr, 1, tr)))))
		case "lh":
			wr(uint64(int64(int16(m.load(addr, 2, tr)))))
		case "lw":
			wr(sext32(m.load(addr, 4, tr)))
		case "ld":
			wr(m.load(addr, 8, tr))
		case "lbu":
			wr(m.load(addr, 1, tr))
		case "lhu":
			wr(m.load(addr, 2, tr))
		case "lwu":
			wr(m.load(addr, 4, tr))
		}
	case "sb", "sh", "sw", "sd":
		addr := (rx(f.Rs1) + imm) & msk
		v := rx(f.Rs2)
		m.store(addr, map[string]int{"sb": 1, "sh": 2, "sw": 4, "sd": 8}[name], v, tr)
	case "addi":
		wr(rx(f.Rs1) + imm)
	case "slti":
		if m.sx(rx(f.Rs1)) < m.sx(imm&msk) {
			wr(1)
		} else {
			wr(0)
		}
	case "sltiu":
		if rx(f.Rs1) < imm&msk {
			wr(1)
		} else {
			wr(0)
		}
	case "xori":
		wr(rx(f.Rs1) ^ imm)
	case "ori":
		wr(rx(f.Rs1) | imm)
	case "andi":
		wr(rx(f.Rs1) & imm)
	case "slli":
		wr(rx(f.Rs1) << f.Shamt)
	case "srli":
		wr(rx(f.Rs1) >> f.Shamt)
	case "srai":
		wr(uint64(m.sx(rx(f.Rs1)) >> f.Shamt))
	case "addiw":
		wr(sext32(rx(f.Rs1) + imm))
	case "slliw":
		wr(sext32(rx(f.Rs1) << f.Shamt))
	case "srliw":
		wr(sext32(uint64(uint32(rx(f.Rs1)) >> f.Shamt)))
	case "sraiw":
		wr(uint64(int64(int32(uint32(rx(f.Rs1))) >> f.Shamt)))
	case "add":
		wr(rx(f.Rs1) + rx(f.Rs2))
	case "sub":
		wr(rx(f.Rs1) - rx(f.Rs2))
	case "sll":
		wr(rx(f.Rs1) << (rx(f.Rs2) & uint64(xlen-1)))
	case "slt":
		if m.sx(rx(f.Rs1)) < m.sx(rx(f.Rs2)) {
			wr(1)
		} else {
			wr(0)
		}
	case "sltu":
		if rx(f.Rs1) < rx(f.Rs2) {
			wr(1)
		} else {
			wr(0)
		}
	case "xor":
		wr(rx(f.Rs1) ^ rx(f.Rs2))
	case "srl":
		wr(rx(f.Rs1) >> (rx(f.Rs2) & uint64(xlen-1)))
	case "sra":
		wr(uint64(m.sx(rx(f.Rs1)) >> (rx(f.Rs2) & uint64(xlen-1))))
	case "or":
		wr(rx(f.Rs1) | rx(f.Rs2))
	case "and":
		wr(rx(f.Rs1) & rx(f.Rs2))
	case "addw":
		wr(sext32(rx(f.Rs1) + rx(f.Rs2)))
	case "subw":
		wr(sext32(rx(f.Rs1) - rx(f.Rs2)))
	case "sllw":
		wr(sext32(rx(f.Rs1) << (rx(f.Rs2) & 31)))
	case "srlw":
		wr(sext32(uint64(uint32(rx(f.Rs1)) >> (rx(f.Rs2) & 31))))
	case "sraw":
		wr(uint64(int64(int32(uint32(rx(f.Rs1))) >> (rx(f.Rs2) & 31))))
	case "mul":
		wr(rx(f.Rs1) * rx(f.Rs2))
	case "mulh":
		a, b := m.sx(rx(f.Rs1)), m.sx(rx(f.Rs2))
		if xlen == 32 {
			wr(uint64((a * b) >> 32))
		} else {
			wr(mulh64(a, b))
		}
	case "mulhsu":
		a, b := m.sx(rx(f.Rs1)), rx(f.Rs2)
		if xlen == 32 {
			wr(uint64((a * int64(b)) >> 32))
		} else {
			wr(mulhsu64(a, b))
		}
	case "mulhu":
		a, b := rx(f.Rs1), rx(f.Rs2)
		if xlen == 32 {
			wr((a * b) >> 32)
		} else {
			wr(mulhu64(a, b))
		}
	case "div":
		a, b := m.sx(rx(f.Rs1)), m.sx(rx(f.Rs2))
		switch {
		case b == 0:
			wr(^uint64(0))
		case b == -1 && a == (int64(-1)<<(xlen-1)):
			wr(uint64(a))
		default:
			wr(uint64(a / b))
		}
	case "divu":
		a, b := rx(f.Rs1), rx(f.Rs2)
		if b == 0 {
			wr(^uint64(0))
		} else {
			wr(a / b)
		}
	case "rem":
		a, b := m.sx(rx(f.Rs1)), m.sx(rx(f.Rs2))
		switch {
		case b == 0:
			wr(uint64(a))
		case b == -1:
			wr(0)
		default:
			wr(uint64(a % b))
		}
	case "remu":
		a, b := rx(f.Rs1), rx(f.Rs2)
		if b == 0 {
			wr(a)
		} else {
			wr(a % b)
		}
	case "mulw":
		wr(sext32(rx(f.Rs1) * rx(f.Rs2)))
	case "divw":
		a, b := int32(uint32(rx(f.Rs1))), int32(uint32(rx(f.Rs2)))
		switch {
		case b == 0:
			wr(^uint64(0))
		case b == -1 && a == -1<<31:
			wr(uint64(int64(a)))
		default:
			wr(uint64(int64(a / b)))
		}
	case "divuw":
		a, b := uint32(rx(f.Rs1)), uint32(rx(f.Rs2))
		if b == 0 {
			wr(^uint64(0))
		} else {
			wr(sext32(uint64(a / b)))
		}
	case "remw":
		a, b := int32(uint32(rx(f.Rs1))), int32(uint32(rx(f.Rs2)))
		switch {
		case b == 0:
			wr(uint64(int64(a)))
		case b == -1:
			wr(0)
		default:
			wr(uint64(int64(a % b)))
		}
	case "remuw":
		a, b := uint32(rx(f.Rs1)), uint32(rx(f.Rs2))
		if b == 0 {
			wr(sext32(uint64(a)))
		} else {
			wr(sext32(uint64(a % b)))
		}
	case "fence", "fence.i", "ecall", "ebreak":
		// no state change
	case "csrrw", "csrrs", "csrrc", "csrrwi", "csrrsi", "csrrci":
		old := m.CSR[f.Csr] & msk
		tr.CSRRead[f.Csr] = old
		var src uint64
		if in.Fmt == FmtCSR {
			src = rx(f.Rs1)
		} else {
			src = uint64(f.Uimm)
		}
		var nv uint64
		switch name {
		case "csrrw", "csrrwi":
			nv = src
		case "csrrs", "csrrsi":
			nv = old | src
		default:
			nv = old &^ src
		}
		wr(old)
		tr.CSRWrite[f.Csr] = nv & msk
	default:
		// atomics
		w := 4
		if name[len(name)-1] == 'd' {
			w = 8
		}
		ext := func(v uint64) uint64 {
			if w == 4 {
				return sext32(v)
			}
			return v
		}
		addr := rx(f.Rs1) & msk
		op := name[:len(name)-2]
		switch op {
		case "lr":
			wr(ext(m.load(addr, w, tr)))
		case "sc":
			m.store(addr, w, rx(f.Rs2), tr)
			wr(0)
		default:
			old := m.load(addr, w, tr)
			src := rx(f.Rs2)
			if w == 4 {
				src &= 0xffffffff
			}
			var nv uint64
			sgn := func(v uint64) int64 {
				if w == 4 {
					return int64(int32(uint32(v)))
				}
				return int64(v)
			}
			switch op {
			case "amoswap":
				nv = src
			case "amoadd":
				nv = old + src
			case "amoxor":
				nv = old ^ src
			case "amoand":
				nv = old & src
			case "amoor":
				nv = old | src
			case "amomin":
				nv = old
				if sgn(src) < sgn(old) {
					nv = src
				}
			case "amomax":
				nv = old
				if sgn(src) > sgn(old) {
					nv = src
				}
			case "amominu":
				nv = old
				if src < old {
					nv = src
				}
			case "amomaxu":
				nv = old
				if src > old {
					nv = src
				}
			default:
				panic("rvref: unhandled instruction " + name)
			}
			m.store(addr, w, nv, tr)
			wr(ext(old))
		}
	}

	// apply writes
	for _, s := range tr.Stores {
		for i := 0; i < s.Width; i++ {
			m.Mem.Write((s.Addr+uint64(i))&msk, byte(s.Value>>(8*uint(i))))
		}
	}
	for c, v := range tr.CSRWrite {
		if m.CSR == nil {
			m.CSR = map[uint32]uint64{}
		}
		m.CSR[c] = v
	}
	if rdSet && f.Rd != 0 && hasRd(in) {
		m.X[f.Rd] = rdVal
		tr.RegsWrite[f.Rd] = rdVal
	}
	tr.NextPC = next
	m.PC = next
	return tr
}

func hasRd(in *Ins) bool {
	switch in.Fmt {
	case FmtS, FmtB, FmtFence, FmtNone:
		return false
	}
	return true
}

// MapMem is a simple map backed memory with a default byte function.
type MapMem struct {
	M       map[uint64]byte
	Default func(addr uint64) byte
}

// Read implements Memory.
func (m *MapMem) Read(a uint64) byte {
	if b, ok := m.M[a]; ok {
		return b
	}
	if m.Default != nil {
		return m.Default(a)
	}
	return 0
}

// Write implements Memory.
func (m *MapMem) Write(a uint64, b byte) {
	if m.M == nil {
		m.M = map[uint64]byte{}
	}
	m.M[a] = b
}
