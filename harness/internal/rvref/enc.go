package rvref

// Fields are the operand fields of an instruction word.
type Fields struct {
	Rd, Rs1, Rs2 uint32
	// Imm is the (sign-extended) immediate for I/S/B/U/J formats; for U it is
	// the value with the low 12 bits zero.
	Imm int64
	// Shamt for FmtShift.
	Shamt      uint32
	Aq, Rl     bool
	Pred, Succ uint32
	Csr        uint32
	Uimm       uint32
}

// Enc builds the instruction word.
func Enc(in *Ins, f Fields) uint32 {
	w := in.Match
	rd, rs1, rs2 := (f.Rd&31)<<7, (f.Rs1&31)<<15, (f.Rs2&31)<<20
	imm := uint32(f.Imm)
	switch in.Fmt {
	case FmtR:
		w |= rd | rs1 | rs2
	case FmtI, FmtLoad, FmtJALR:
		w |= rd | rs1 | (imm&0xfff)<<20
	case FmtS:
		w |= rs1 | rs2 | (imm&0x1f)<<7 | ((imm>>5)&0x7f)<<25
	case FmtB:
		w |= rs1 | rs2 | ((imm>>11)&1)<<7 | ((imm>>1)&0xf)<<8 | ((imm>>5)&0x3f)<<25 | ((imm>>12)&1)<<31
	case FmtU:
		w |= rd | (imm & 0xfffff000)
	case FmtJ:
		w |= rd | ((imm>>12)&0xff)<<12 | ((imm>>11)&1)<<20 | ((imm>>1)&0x3ff)<<21 | ((imm>>20)&1)<<31
	case FmtShift:
		w |= rd | rs1 | (f.Shamt&(1<<uint(in.ShamtBits)-1))<<20
	case FmtAMO:
		w |= rd | rs1 | rs2
		if f.Aq {
			w |= 1 << 26
		}
		if f.Rl {
			w |= 1 << 25
		}
	case FmtLR:
		w |= rd | rs1
		if f.Aq {
			w |= 1 << 26
		}
		if f.Rl {
			w |= 1 << 25
		}
	case FmtFence:
		w |= (f.Pred&15)<<24 | (f.Succ&15)<<20
	case FmtNone:
	case FmtCSR:
		w |= rd | rs1 | (f.Csr&0xfff)<<20
	case FmtCSRI:
		w |= rd | (f.Uimm&31)<<15 | (f.Csr&0xfff)<<20
	}
	return w
}

func sext(v uint32, bits uint) int64 {
	s := 32 - bits
	return int64(int32(v<<s) >> s)
}

// Dec extracts the operand fields of word according to in's format.
func Dec(in *Ins, w uint32) Fields {
	f := Fields{Rd: (w >> 7) & 31, Rs1: (w >> 15) & 31, Rs2: (w >> 20) & 31}
	switch in.Fmt {
	case FmtI, FmtLoad, FmtJALR:
		f.Imm = sext(w>>20, 12)
	case FmtS:
		f.Imm = sext((w>>25)<<5|(w>>7)&31, 12)
	case FmtB:
		f.Imm = sext(((w>>31)&1)<<12|((w>>7)&1)<<11|((w>>25)&0x3f)<<5|((w>>8)&0xf)<<1, 13)
	case FmtU:
		f.Imm = int64(int32(w & 0xfffff000))
	case FmtJ:
		f.Imm = sext(((w>>31)&1)<<20|((w>>12)&0xff)<<12|((w>>20)&1)<<11|((w>>21)&0x3ff)<<1, 21)
	case FmtShift:
		f.Shamt = (w >> 20) & (1<<uint(in.ShamtBits) - 1)
	case FmtAMO, FmtLR:
		f.Aq, f.Rl = (w>>26)&1 == 1, (w>>25)&1 == 1
	case FmtFence:
		f.Pred, f.Succ = (w>>24)&15, (w>>20)&15
	case FmtCSR:
		f.Csr = w >> 20
	case FmtCSRI:
		f.Csr, f.Uimm = w>>20, (w>>15)&31
	}
	return f
}
