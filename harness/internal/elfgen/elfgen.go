// Package elfgen writes ELF files from a layout model. The model, not a
// re-parse of the file, is the oracle of the checks using it.
package elfgen

import (
	"encoding/binary"
)

// ELF constants used by the generator (values from the ELF specification).
const (
	ETNone = 0
	ETRel  = 1
	ETExec = 2
	ETDyn  = 3
	ETCore = 4

	PTNull = 0
	PTLoad = 1
	PTDyn  = 2
	PTNote = 4
	PTPhdr = 6

	SHTNull     = 0
	SHTProgbits = 1
	SHTSymtab   = 2
	SHTStrtab   = 3
	SHTNote     = 7
	SHTNobits   = 8

	SHFWrite     = 1
	SHFAlloc     = 2
	SHFExecinstr = 4

	EMRiscV = 243
	EMX8664 = 62
)

// Segment is a program header.
type Segment struct {
	Type, Flags               uint32
	Off, Vaddr, Filesz, Memsz uint64
	// PaddrDelta is added to Vaddr to form p_paddr (0: physical == virtual).
	PaddrDelta uint64
}

// Section is a section header (the null section and .shstrtab are added by the
// writer).
type Section struct {
	Name            string
	Type            uint32
	Flags           uint64
	Addr, Off, Size uint64
}

// Model describes an ELF file.
type Model struct {
	Class64   bool
	BigEndian bool
	Type      uint16
	Machine   uint16
	Entry     uint64
	// Payload is placed right behind the program header table; segment and
	// section offsets are absolute file offsets (normally inside the payload).
	Payload  []byte
	Segments []Segment
	Sections []Section
	// NoSectionTable omits the section header table completely.
	NoSectionTable bool
}

func (m *Model) ehsize() int {
	if m.Class64 {
		return 64
	}
	return 52
}

func (m *Model) phentsize() int {
	if m.Class64 {
		return 56
	}
	return 32
}

func (m *Model) shentsize() int {
	if m.Class64 {
		return 64
	}
	return 40
}

// PayloadOff is the file offset of the first payload byte.
func (m *Model) PayloadOff() uint64 {
	return uint64(m.ehsize() + len(m.Segments)*m.phentsize())
}

// Layout gives the offsets of the tables written behind the payload.
type Layout struct {
	Phoff, ShstrOff, ShstrSize, Shoff uint64
	Shnum                             int
}

// Bytes renders the file and returns its layout.
func (m *Model) Bytes() ([]byte, Layout) {
	var bo binary.ByteOrder = binary.LittleEndian
	if m.BigEndian {
		bo = binary.BigEndian
	}
	var lay Layout
	lay.Phoff = uint64(m.ehsize())
	buf := make([]byte, m.PayloadOff())
	buf = append(buf, m.Payload...)

	// section name string table
	shstr := []byte{0}
	nameOff := make([]uint32, len(m.Sections))
	for i, s := range m.Sections {
		nameOff[i] = uint32(len(shstr))
		shstr = append(shstr, []byte(s.Name)...)
		shstr = append(shstr, 0)
	}
	shstrName := uint32(len(shstr))
	shstr = append(shstr, []byte(".shstrtab")...)
	shstr = append(shstr, 0)

	if !m.NoSectionTable {
		lay.ShstrOff, lay.ShstrSize = uint64(len(buf)), uint64(len(shstr))
		buf = append(buf, shstr...)
		for len(buf)%8 != 0 {
			buf = append(buf, 0)
		}
		lay.Shoff = uint64(len(buf))
		lay.Shnum = len(m.Sections) + 2
		put := func(name, typ uint32, flags, addr, off, size uint64) {
			e := make([]byte, m.shentsize())
			if m.Class64 {
				bo.PutUint32(e[0:], name)
				bo.PutUint32(e[4:], typ)
				bo.PutUint64(e[8:], flags)
				bo.PutUint64(e[16:], addr)
				bo.PutUint64(e[24:], off)
				bo.PutUint64(e[32:], size)
				bo.PutUint64(e[48:], 1)
			} else {
				bo.PutUint32(e[0:], name)
				bo.PutUint32(e[4:], typ)
				bo.PutUint32(e[8:], uint32(flags))
				bo.PutUint32(e[12:], uint32(addr))
				bo.PutUint32(e[16:], uint32(off))
				bo.PutUint32(e[20:], uint32(size))
				bo.PutUint32(e[32:], 1)
			}
			buf = append(buf, e...)
		}
		put(0, SHTNull, 0, 0, 0, 0)
		for i, s := range m.Sections {
			put(nameOff[i], s.Type, s.Flags, s.Addr, s.Off, s.Size)
		}
		put(shstrName, SHTStrtab, 0, 0, lay.ShstrOff, lay.ShstrSize)
	}

	// ELF header
	h := buf[:m.ehsize()]
	copy(h, []byte{0x7f, 'E', 'L', 'F'})
	h[4] = 1
	if m.Class64 {
		h[4] = 2
	}
	h[5] = 1
	if m.BigEndian {
		h[5] = 2
	}
	h[6] = 1 // EV_CURRENT
	bo.PutUint16(h[16:], m.Type)
	bo.PutUint16(h[18:], m.Machine)
	bo.PutUint32(h[20:], 1)
	shstrndx := uint16(0)
	if !m.NoSectionTable {
		shstrndx = uint16(lay.Shnum - 1)
	}
	phoff := lay.Phoff
	if len(m.Segments) == 0 {
		phoff = 0
	}
	if m.Class64 {
		bo.PutUint64(h[24:], m.Entry)
		bo.PutUint64(h[32:], phoff)
		bo.PutUint64(h[40:], lay.Shoff)
		bo.PutUint16(h[52:], uint16(m.ehsize()))
		bo.PutUint16(h[54:], uint16(m.phentsize()))
		bo.PutUint16(h[56:], uint16(len(m.Segments)))
		bo.PutUint16(h[58:], uint16(m.shentsize()))
		bo.PutUint16(h[60:], uint16(lay.Shnum))
		bo.PutUint16(h[62:], shstrndx)
	} else {
		bo.PutUint32(h[24:], uint32(m.Entry))
		bo.PutUint32(h[28:], uint32(phoff))
		bo.PutUint32(h[32:], uint32(lay.Shoff))
		bo.PutUint16(h[40:], uint16(m.ehsize()))
		bo.PutUint16(h[42:], uint16(m.phentsize()))
		bo.PutUint16(h[44:], uint16(len(m.Segments)))
		bo.PutUint16(h[46:], uint16(m.shentsize()))
		bo.PutUint16(h[48:], uint16(lay.Shnum))
		bo.PutUint16(h[50:], shstrndx)
	}

	// program headers
	for i, s := range m.Segments {
		e := buf[int(lay.Phoff)+i*m.phentsize():]
		if m.Class64 {
			bo.PutUint32(e[0:], s.Type)
			bo.PutUint32(e[4:], s.Flags)
			bo.PutUint64(e[8:], s.Off)
			bo.PutUint64(e[16:], s.Vaddr)
			bo.PutUint64(e[24:], s.Vaddr+s.PaddrDelta)
			bo.PutUint64(e[32:], s.Filesz)
			bo.PutUint64(e[40:], s.Memsz)
			bo.PutUint64(e[48:], 1)
		} else {
			bo.PutUint32(e[0:], s.Type)
			bo.PutUint32(e[4:], uint32(s.Off))
			bo.PutUint32(e[8:], uint32(s.Vaddr))
			bo.PutUint32(e[12:], uint32(s.Vaddr+s.PaddrDelta))
			bo.PutUint32(e[16:], uint32(s.Filesz))
			bo.PutUint32(e[20:], uint32(s.Memsz))
			bo.PutUint32(e[24:], s.Flags)
			bo.PutUint32(e[28:], 1)
		}
	}
	return buf, lay
}
