// Package irsem is an independent denotational semantics of the expression IR
// of mltwist, written from the documentation of package pkg/expr only. It shares
// no code with internal/exprtransform/internal/expreval.
//
// Every value is an unsigned integer below 2^(8*w). Operands of an operation of
// width w are zero-extended or truncated to w (Fit) and the result is reduced
// to w as well.
package irsem

import (
	"fmt"
	"math/big"
	"strings"

	"mltwist/pkg/expr"
)

// Env is a total valuation of registers and memory.
type Env interface {
	// Reg returns the (arbitrarily wide) unsigned value held in register k.
	Reg(k expr.Key) *big.Int
	// MemByte returns the byte stored at address addr of memory k.
	MemByte(k expr.Key, addr *big.Int) byte
}

var (
	one = big.NewInt(1)
)

// Pow2 returns 2^(8*w).
func Pow2(w expr.Width) *big.Int { return new(big.Int).Lsh(one, uint(w)*8) }

// Fit zero-extends or truncates v to w bytes.
func Fit(v *big.Int, w expr.Width) *big.Int {
	if v.Sign() >= 0 && v.BitLen() <= int(w)*8 {
		return v
	}
	m := new(big.Int).Sub(Pow2(w), one)
	return new(big.Int).And(v, m)
}

// FromBytes converts little-endian bytes into an integer.
func FromBytes(bs []byte) *big.Int {
	be := make([]byte, len(bs))
	for i, b := range bs {
		be[len(bs)-1-i] = b
	}
	return new(big.Int).SetBytes(be)
}

// ToBytes converts v (assumed to fit) to w little-endian bytes.
func ToBytes(v *big.Int, w expr.Width) []byte {
	v = Fit(v, w)
	be := v.Bytes()
	bs := make([]byte, w)
	for i, b := range be {
		bs[len(be)-1-i] = b
	}
	return bs
}

// Const builds a constant of width w holding Fit(v, w).
func Const(v *big.Int, w expr.Width) expr.Const { return expr.NewConst(ToBytes(v, w), w) }

// Eval computes the value of e under env.
func Eval(e expr.Expr, env Env) *big.Int {
	switch x := e.(type) {
	case expr.Const:
		return FromBytes(x.Bytes())
	case expr.RegLoad:
		return Fit(env.Reg(x.Key()), x.Width())
	case expr.MemLoad:
		a := Eval(x.Addr(), env)
		return LoadMem(env, x.Key(), a, x.Width())
	case expr.Binary:
		w := x.Width()
		a := Fit(Eval(x.Arg1(), env), w)
		b := Fit(Eval(x.Arg2(), env), w)
		return BinOp(x.Op(), a, b, w)
	case expr.Less:
		w := x.Width()
		a := Fit(Eval(x.Arg1(), env), w)
		b := Fit(Eval(x.Arg2(), env), w)
		if a.Cmp(b) < 0 {
			return Fit(Eval(x.ExprTrue(), env), w)
		}
		return Fit(Eval(x.ExprFalse(), env), w)
	default:
		panic(fmt.Sprintf("irsem: unknown expression %T", e))
	}
}

// LoadMem reads w little-endian bytes at address a.
func LoadMem(env Env, k expr.Key, a *big.Int, w expr.Width) *big.Int {
	res := new(big.Int)
	for i := int(w) - 1; i >= 0; i-- {
		ai := new(big.Int).Add(a, big.NewInt(int64(i)))
		res.Lsh(res, 8)
		res.Or(res, big.NewInt(int64(env.MemByte(k, ai))))
	}
	return res
}

// BinOp applies op to operands already fitted to w.
func BinOp(op expr.BinaryOp, a, b *big.Int, w expr.Width) *big.Int {
	bits := uint(w) * 8
	switch op {
	case expr.Add:
		return Fit(new(big.Int).Add(a, b), w)
	case expr.Mul:
		return Fit(new(big.Int).Mul(a, b), w)
	case expr.Lsh:
		if !b.IsUint64() || b.Uint64() >= uint64(bits) {
			return new(big.Int)
		}
		return Fit(new(big.Int).Lsh(a, uint(b.Uint64())), w)
	case expr.Rsh:
		if !b.IsUint64() || b.Uint64() >= uint64(bits) {
			return new(big.Int)
		}
		return new(big.Int).Rsh(a, uint(b.Uint64()))
	case expr.Div:
		if b.Sign() == 0 {
			return new(big.Int).Sub(Pow2(w), one)
		}
		return new(big.Int).Div(a, b)
	case expr.Nand:
		and := new(big.Int).And(a, b)
		ones := new(big.Int).Sub(Pow2(w), one)
		return new(big.Int).Xor(and, ones)
	default:
		panic(fmt.Sprintf("irsem: unknown binary op %d", op))
	}
}

// ---------------------------------------------------------------------------
// Hash-defined total environment.

func splitmix(x uint64) uint64 {
	x += 0x9e3779b97f4a7c15
	x = (x ^ (x >> 30)) * 0xbf58476d1ce4e5b9
	x = (x ^ (x >> 27)) * 0x94d049bb133111eb
	return x ^ (x >> 31)
}

func hashStr(seed uint64, s string) uint64 {
	h := splitmix(seed ^ 0x51ed270b)
	for i := 0; i < len(s); i++ {
		h = splitmix(h ^ uint64(s[i]))
	}
	return h
}

// HashEnv is a total environment whose registers and memory bytes are derived
// from a seed by hashing, with explicit overrides.
type HashEnv struct {
	Seed uint64
	// RegBytes is the width of generated register values.
	RegBytes int
	Regs     map[expr.Key]*big.Int
	Mem      map[expr.Key]map[string]byte
}

// NewHashEnv returns an environment with 40-byte wide registers.
func NewHashEnv(seed uint64) *HashEnv { return &HashEnv{Seed: seed, RegBytes: 40} }

// Reg implements Env.
func (h *HashEnv) Reg(k expr.Key) *big.Int {
	if v, ok := h.Regs[k]; ok {
		return v
	}
	x := hashStr(h.Seed, "r:"+string(k))
	n := h.RegBytes
	bs := make([]byte, n)
	switch x % 10 {
	case 0: // zero
	case 5: // small low part and one non-zero byte further up: a small shift amount
		// (or small operand) once it is cut to 1-3 bytes, a huge one uncut
		bs[0] = byte(x>>8) % 70
		bs[1+int((x>>16)%4)] = byte(x>>24) | 1
	case 6: // small two-byte value
		bs[0], bs[1] = byte(x>>8), byte(x>>16)%9
	case 1: // all ones
		for i := range bs {
			bs[i] = 0xff
		}
	case 2: // small
		bs[0] = byte(x >> 8)
	case 3: // single bit
		bit := int((x >> 8) % uint64(n*8))
		bs[bit/8] = 1 << uint(bit%8)
	case 4: // low bytes ones up to some boundary
		k := int((x>>8)%uint64(n)) + 1
		for i := 0; i < k; i++ {
			bs[i] = 0xff
		}
	default:
		y := x
		for i := range bs {
			y = splitmix(y)
			bs[i] = byte(y)
		}
	}
	return FromBytes(bs)
}

// MemByte implements Env.
func (h *HashEnv) MemByte(k expr.Key, addr *big.Int) byte {
	as := addr.Text(16)
	if m, ok := h.Mem[k]; ok {
		if b, ok := m[as]; ok {
			return b
		}
	}
	x := hashStr(h.Seed, "m:"+string(k)+":"+as)
	switch x % 6 {
	case 0:
		return 0
	case 1:
		return 0xff
	case 2:
		return 0x80
	default:
		return byte(x >> 8)
	}
}

// SetReg overrides register k.
func (h *HashEnv) SetReg(k expr.Key, v *big.Int) {
	if h.Regs == nil {
		h.Regs = make(map[expr.Key]*big.Int)
	}
	h.Regs[k] = v
}

// SetMemByte overrides one memory byte.
func (h *HashEnv) SetMemByte(k expr.Key, addr *big.Int, b byte) {
	if h.Mem == nil {
		h.Mem = make(map[expr.Key]map[string]byte)
	}
	if h.Mem[k] == nil {
		h.Mem[k] = make(map[string]byte)
	}
	h.Mem[k][addr.Text(16)] = b
}

// ---------------------------------------------------------------------------
// Structural helpers.

func opName(op expr.BinaryOp) string {
	switch op {
	case expr.Add:
		return "add"
	case expr.Lsh:
		return "lsh"
	case expr.Rsh:
		return "rsh"
	case expr.Mul:
		return "mul"
	case expr.Div:
		return "div"
	case expr.Nand:
		return "nand"
	}
	return fmt.Sprintf("op%d", op)
}

// String renders e in a compact prefix form that identifies it structurally.
func String(e expr.Expr) string {
	var sb strings.Builder
	write(&sb, e)
	return sb.String()
}

func write(sb *strings.Builder, e expr.Expr) {
	switch x := e.(type) {
	case nil:
		sb.WriteString("<nil>")
	case expr.Const:
		fmt.Fprintf(sb, "c%d:", x.Width())
		bs := x.Bytes()
		// big endian hex for readability
		for i := len(bs) - 1; i >= 0; i-- {
			fmt.Fprintf(sb, "%02x", bs[i])
		}
	case expr.RegLoad:
		fmt.Fprintf(sb, "reg%d(%s)", x.Width(), x.Key())
	case expr.MemLoad:
		fmt.Fprintf(sb, "mem%d(%s,", x.Width(), x.Key())
		write(sb, x.Addr())
		sb.WriteString(")")
	case expr.Binary:
		fmt.Fprintf(sb, "%s%d(", opName(x.Op()), x.Width())
		write(sb, x.Arg1())
		sb.WriteString(",")
		write(sb, x.Arg2())
		sb.WriteString(")")
	case expr.Less:
		fmt.Fprintf(sb, "less%d(", x.Width())
		write(sb, x.Arg1())
		sb.WriteString(",")
		write(sb, x.Arg2())
		sb.WriteString(",")
		write(sb, x.ExprTrue())
		sb.WriteString(",")
		write(sb, x.ExprFalse())
		sb.WriteString(")")
	default:
		fmt.Fprintf(sb, "?%T", e)
	}
}

// EffectString renders an effect.
func EffectString(ef expr.Effect) string {
	switch x := ef.(type) {
	case expr.RegStore:
		return fmt.Sprintf("regstore%d(%s,%s)", x.Width(), x.Key(), String(x.Value()))
	case expr.MemStore:
		return fmt.Sprintf("memstore%d(%s,%s,%s)", x.Width(), x.Key(), String(x.Addr()), String(x.Value()))
	}
	return fmt.Sprintf("?%T", ef)
}

// Children returns the direct sub-expressions of e in the documented order.
func Children(e expr.Expr) []expr.Expr {
	switch x := e.(type) {
	case expr.Binary:
		return []expr.Expr{x.Arg1(), x.Arg2()}
	case expr.Less:
		return []expr.Expr{x.Arg1(), x.Arg2(), x.ExprTrue(), x.ExprFalse()}
	case expr.MemLoad:
		return []expr.Expr{x.Addr()}
	}
	return nil
}

// Walk visits e and all sub-expressions in pre-order.
func Walk(e expr.Expr, f func(expr.Expr)) {
	f(e)
	for _, c := range Children(e) {
		Walk(c, f)
	}
}

// Size returns number of nodes in e.
func Size(e expr.Expr) int {
	n := 0
	Walk(e, func(expr.Expr) { n++ })
	return n
}

// HasLoad tells whether e contains a register or memory load.
func HasLoad(e expr.Expr) bool {
	found := false
	Walk(e, func(x expr.Expr) {
		switch x.(type) {
		case expr.RegLoad, expr.MemLoad:
			found = true
		}
	})
	return found
}

// IsWidthGadget recognises Add(e, Const[0x00] of width 1, w).
func IsWidthGadget(e expr.Expr) (expr.Expr, bool) {
	b, ok := e.(expr.Binary)
	if !ok || b.Op() != expr.Add {
		return nil, false
	}
	c, ok := b.Arg2().(expr.Const)
	if !ok || len(c.Bytes()) != 1 || c.Bytes()[0] != 0 {
		return nil, false
	}
	return b.Arg1(), true
}

// ---------------------------------------------------------------------------
// Effects.

// State is a mutable machine state used to apply effects.
type State struct {
	Regs map[expr.Key]*big.Int
	// Mem maps memory key to address (hex) to byte.
	Mem map[expr.Key]map[string]byte
	// Base supplies values never written.
	Base Env
}

// NewState creates a state on top of base.
func NewState(base Env) *State {
	return &State{
		Regs: make(map[expr.Key]*big.Int),
		Mem:  make(map[expr.Key]map[string]byte),
		Base: base,
	}
}

// Reg implements Env.
func (s *State) Reg(k expr.Key) *big.Int {
	if v, ok := s.Regs[k]; ok {
		return v
	}
	return s.Base.Reg(k)
}

// MemByte implements Env.
func (s *State) MemByte(k expr.Key, addr *big.Int) byte {
	if m, ok := s.Mem[k]; ok {
		if b, ok := m[addr.Text(16)]; ok {
			return b
		}
	}
	return s.Base.MemByte(k, addr)
}

// AddrMask, when non-nil, is applied (AND) to every store address; it models
// machines whose address space wraps (e.g. 2^64-1).
type Write struct {
	Reg   bool
	Key   expr.Key
	Addr  *big.Int
	Width expr.Width
	Value *big.Int
}

// Apply evaluates all effects in the pre-state and then applies them in order.
// It returns the list of writes performed. Memory addresses are reduced modulo
// 2^(8*addrBytes) when addrBytes > 0.
func (s *State) Apply(effects []expr.Effect, addrBytes expr.Width) []Write {
	ws := make([]Write, 0, len(effects))
	for _, ef := range effects {
		switch x := ef.(type) {
		case expr.RegStore:
			ws = append(ws, Write{Reg: true, Key: x.Key(), Width: x.Width(),
				Value: Fit(Eval(x.Value(), s), x.Width())})
		case expr.MemStore:
			a := Eval(x.Addr(), s)
			if addrBytes > 0 {
				a = Fit(a, addrBytes)
			}
			ws = append(ws, Write{Key: x.Key(), Addr: a, Width: x.Width(),
				Value: Fit(Eval(x.Value(), s), x.Width())})
		default:
			panic(fmt.Sprintf("irsem: unknown effect %T", ef))
		}
	}
	for _, w := range ws {
		if w.Reg {
			s.Regs[w.Key] = w.Value
			continue
		}
		m := s.Mem[w.Key]
		if m == nil {
			m = make(map[string]byte)
			s.Mem[w.Key] = m
		}
		bs := ToBytes(w.Value, w.Width)
		for i, b := range bs {
			ai := new(big.Int).Add(w.Addr, big.NewInt(int64(i)))
			if addrBytes > 0 {
				ai = Fit(ai, addrBytes)
			}
			m[ai.Text(16)] = b
		}
	}
	return ws
}
