package irsem

import (
	"mltwist/pkg/expr"

	"pgregory.net/rapid"
)

// GenCfg configures the expression generator.
type GenCfg struct {
	// MaxDepth is maximal depth of generated trees.
	MaxDepth int
	// ConstOnly forbids register and memory loads.
	ConstOnly bool
	// NoLess forbids conditionals.
	NoLess bool
	// NoMem forbids memory loads.
	NoMem bool
	// GadgetProb is probability (in percent) of wrapping any generated
	// sub-expression into 1-3 width gadgets.
	GadgetProb int
	// MaxWidth limits generated widths (0 means 255).
	MaxWidth int
	// SmallWidths biases widths to <= 16 bytes only.
	SmallWidths bool
	// MoreLess doubles the share of conditionals among inner nodes.
	MoreLess bool
	// LessBudget, when > 0, bounds the number of alternatives Possibilities
	// may produce for the generated tree.
	LessBudget int
}

var favWidths = []int{1, 2, 3, 4, 7, 8, 9, 16, 17, 32, 255}

// GenWidth draws an expression width in [1, max] with weight on boundaries.
func GenWidth(t *rapid.T, cfg GenCfg, label string) expr.Width {
	max := cfg.MaxWidth
	if max <= 0 {
		max = 255
	}
	if cfg.SmallWidths && max > 16 {
		max = 16
	}
	switch rapid.IntRange(0, 9).Draw(t, label+"_wk") {
	case 0, 1, 2, 3, 4, 5:
		for {
			w := favWidths[rapid.IntRange(0, len(favWidths)-1).Draw(t, label+"_wf")]
			if w <= max {
				return expr.Width(w)
			}
			if max < 1 {
				return 1
			}
			return expr.Width(rapid.IntRange(1, max).Draw(t, label+"_w"))
		}
	case 6, 7:
		m := 9
		if m > max {
			m = max
		}
		return expr.Width(rapid.IntRange(1, m).Draw(t, label+"_w"))
	default:
		return expr.Width(rapid.IntRange(1, max).Draw(t, label+"_w"))
	}
}

// GenBytes draws w boundary-biased little-endian bytes.
func GenBytes(t *rapid.T, w int, label string) []byte {
	bs := make([]byte, w)
	if w == 0 {
		return bs
	}
	switch rapid.IntRange(0, 11).Draw(t, label+"_k") {
	case 0: // zero
	case 1: // one
		bs[0] = 1
	case 2: // all ones
		for i := range bs {
			bs[i] = 0xff
		}
	case 3: // single bit
		bit := rapid.IntRange(0, w*8-1).Draw(t, label+"_bit")
		bs[bit/8] = 1 << uint(bit%8)
	case 4: // 2^(8k)-1: low k bytes ones
		k := rapid.IntRange(1, w).Draw(t, label+"_ones")
		for i := 0; i < k; i++ {
			bs[i] = 0xff
		}
	case 5: // sign bit only / max positive
		if rapid.Bool().Draw(t, label+"_sb") {
			bs[w-1] = 0x80
		} else {
			for i := range bs {
				bs[i] = 0xff
			}
			bs[w-1] = 0x7f
		}
	case 6: // small number
		bs[0] = rapid.Byte().Draw(t, label+"_small")
	case 7: // shift-amount like values around 8*k
		v := rapid.IntRange(0, 2050).Draw(t, label+"_sh")
		bs[0] = byte(v)
		if w > 1 {
			bs[1] = byte(v >> 8)
		}
	case 8: // zero low part, non-zero high part
		k := rapid.IntRange(0, w-1).Draw(t, label+"_hi")
		bs[k] = rapid.ByteRange(1, 255).Draw(t, label+"_hib")
	default:
		n := w
		if n > 24 {
			// keep draws bounded: random prefix, patterned rest
			n = 24
		}
		rb := rapid.SliceOfN(rapid.Byte(), n, n).Draw(t, label+"_rnd")
		copy(bs, rb)
		for i := n; i < w; i++ {
			bs[i] = rb[i%n] ^ byte(i)
		}
	}
	return bs
}

// GenConst draws a constant of the given width.
func GenConst(t *rapid.T, w expr.Width, label string) expr.Const {
	return expr.NewConst(GenBytes(t, int(w), label), w)
}

// RegKeys and MemKeys are the small pools used by generated expressions.
var (
	RegKeys = []expr.Key{"r0", "r1", "r2", "r3"}
	MemKeys = []expr.Key{"m0", "m1"}
	binOps  = []expr.BinaryOp{expr.Add, expr.Lsh, expr.Rsh, expr.Mul, expr.Div, expr.Nand}
)

// GenExpr draws an expression tree.
func GenExpr(t *rapid.T, cfg GenCfg) expr.Expr {
	budget := cfg.LessBudget
	if budget <= 0 {
		budget = 1 << 30
	}
	e, _ := genExpr(t, cfg, cfg.MaxDepth, budget)
	return e
}

func wrapGadgets(t *rapid.T, cfg GenCfg, e expr.Expr) expr.Expr {
	if cfg.GadgetProb <= 0 || rapid.IntRange(0, 99).Draw(t, "gp") >= cfg.GadgetProb {
		return e
	}
	n := rapid.IntRange(1, 3).Draw(t, "gn")
	for i := 0; i < n; i++ {
		w := GenWidth(t, cfg, "gw")
		switch rapid.IntRange(0, 11).Draw(t, "gk") {
		case 0:
			// look-alike: zero of width 2 is not a gadget
			e = expr.NewBinary(expr.Add, e, expr.NewConst([]byte{0, 0}, 2), w)
		case 1:
			// look-alike: zero on the left
			e = expr.NewBinary(expr.Add, expr.Zero, e, w)
		case 2:
			// look-alike: a constant wider than 8 bytes whose low 8 bytes are zero
			// (k * 2^64): zero for whoever reads it as uint64, not zero
			cw := rapid.IntRange(9, 16).Draw(t, "gbigw")
			bs := make([]byte, cw)
			bs[rapid.IntRange(8, cw-1).Draw(t, "gbigpos")] = rapid.ByteRange(1, 255).Draw(t, "gbigb")
			e = expr.NewBinary(expr.Add, e, expr.NewConst(bs, expr.Width(cw)), w)
		default:
			e = expr.NewBinary(expr.Add, e, expr.Zero, w)
		}
	}
	return e
}

// genExpr returns the expression and the number of alternatives Possibilities
// would enumerate for it.
func genExpr(t *rapid.T, cfg GenCfg, depth int, budget int) (expr.Expr, int) {
	e, n := genExprRaw(t, cfg, depth, budget)
	return wrapGadgets(t, cfg, e), n
}

func genLeaf(t *rapid.T, cfg GenCfg) expr.Expr {
	w := GenWidth(t, cfg, "lw")
	if cfg.ConstOnly || rapid.IntRange(0, 2).Draw(t, "leafk") == 0 {
		return GenConst(t, w, "c")
	}
	k := RegKeys[rapid.IntRange(0, len(RegKeys)-1).Draw(t, "rk")]
	return expr.NewRegLoad(k, w)
}

func genExprRaw(t *rapid.T, cfg GenCfg, depth int, budget int) (expr.Expr, int) {
	if depth <= 0 {
		return genLeaf(t, cfg), 1
	}

	kind := rapid.IntRange(0, 9).Draw(t, "kind")
	if cfg.MoreLess && (kind == 4 || kind == 5) {
		kind = 6
	}
	switch {
	case kind <= 1:
		return genLeaf(t, cfg), 1
	case kind <= 5:
		op := binOps[rapid.IntRange(0, len(binOps)-1).Draw(t, "op")]
		w := GenWidth(t, cfg, "bw")
		b1 := isqrt(budget)
		a1, n1 := genExpr(t, cfg, depth-1, b1)
		a2, n2 := genExpr(t, cfg, depth-1, budget/maxInt(n1, 1))
		return expr.NewBinary(op, a1, a2, w), n1 * n2
	case kind <= 7:
		if cfg.NoLess || budget < 2 {
			return genLeaf(t, cfg), 1
		}
		w := GenWidth(t, cfg, "cw")
		c1, _ := genExpr(t, cfg, depth-1, 1<<30)
		c2, _ := genExpr(t, cfg, depth-1, 1<<30)
		et, n1 := genExpr(t, cfg, depth-1, budget/2)
		ef, n2 := genExpr(t, cfg, depth-1, budget-n1)
		return expr.NewLess(c1, c2, et, ef, w), n1 + n2
	default:
		if cfg.ConstOnly || cfg.NoMem {
			return genLeaf(t, cfg), 1
		}
		w := GenWidth(t, cfg, "mw")
		k := MemKeys[rapid.IntRange(0, len(MemKeys)-1).Draw(t, "mk")]
		a, n := genExpr(t, cfg, depth-1, budget)
		return expr.NewMemLoad(k, a, w), n
	}
}

func isqrt(n int) int {
	if n < 4 {
		return 1
	}
	r := 1
	for (r+1)*(r+1) <= n {
		r++
	}
	return r
}

func maxInt(a, b int) int {
	if a > b {
		return a
	}
	return b
}

// Clone deep-copies an expression tree (constants get fresh byte slices).
func Clone(e expr.Expr) expr.Expr {
	switch x := e.(type) {
	case expr.Const:
		return expr.NewConst(x.Bytes(), x.Width())
	case expr.RegLoad:
		return expr.NewRegLoad(x.Key(), x.Width())
	case expr.MemLoad:
		return expr.NewMemLoad(x.Key(), Clone(x.Addr()), x.Width())
	case expr.Binary:
		return expr.NewBinary(x.Op(), Clone(x.Arg1()), Clone(x.Arg2()), x.Width())
	case expr.Less:
		return expr.NewLess(Clone(x.Arg1()), Clone(x.Arg2()), Clone(x.ExprTrue()), Clone(x.ExprFalse()), x.Width())
	}
	panic("irsem: unknown expression")
}
