// Package ev collects evidence about what a check actually explored and
// implements the known-findings protocol shared by all checks.
//
// A check creates one Collector, calls Case() for every generated case,
// Nontrivial(key) for every case satisfying the property's stated
// non-triviality rule (key identifies the case; distinct keys are counted),
// Class(name) to build a histogram of generated shapes and Sample(v) to keep a
// few literal cases. Flush writes a partial evidence file which the driver
// (/verif/check) merges over shards into /verif/evidence/<id>.json.
package ev

import (
	"bufio"
	"encoding/json"
	"fmt"
	"hash/fnv"
	"os"
	"sort"
	"strconv"
	"strings"
	"sync"
	"time"
)

// Collector accumulates coverage information of one check run (one shard).
type Collector struct {
	ID   string
	Rule string

	mu          sync.Mutex
	evals       int64
	nontrivial  map[uint64]struct{}
	classes     map[string]int64
	samples     []interface{}
	sampleSeen  int64
	excluded    map[string]int64
	assumptions []string
	extra       map[string]interface{}
	known       []string
	start       time.Time
	maxSamples  int
}

// New creates a collector for property id. rule describes how cases are
// generated and what makes one non-trivial.
func New(id string, rule string) *Collector {
	return &Collector{
		ID:         id,
		Rule:       rule,
		nontrivial: make(map[uint64]struct{}),
		classes:    make(map[string]int64),
		excluded:   make(map[string]int64),
		extra:      make(map[string]interface{}),
		start:      time.Now(),
		maxSamples: 5,
	}
}

// Tier returns the tier the check runs in ("quick" or "thorough").
func Tier() string {
	if t := os.Getenv("VERIF_TIER"); t == "thorough" {
		return "thorough"
	}
	return "quick"
}

// Thorough tells whether the thorough tier is running.
func Thorough() bool { return Tier() == "thorough" }

// Scale returns q in the quick tier and t in the thorough tier.
func Scale(q, t int) int {
	if Thorough() {
		return t
	}
	return q
}

// Seed returns the VERIF_SEED value (0 if unset).
func Seed() int64 {
	v, _ := strconv.ParseInt(os.Getenv("VERIF_SEED"), 10, 64)
	return v
}

// Shard returns the shard index and the number of shards of this process.
func Shard() (int, int) {
	i, _ := strconv.Atoi(os.Getenv("VERIF_SHARD"))
	n, _ := strconv.Atoi(os.Getenv("VERIF_SHARDS"))
	if n <= 0 {
		n = 1
	}
	return i, n
}

// Case counts one generated case.
func (c *Collector) Case() {
	if c == nil {
		return
	}
	c.mu.Lock()
	c.evals++
	c.mu.Unlock()
}

// Cases counts n generated cases.
func (c *Collector) Cases(n int) {
	if c == nil {
		return
	}
	c.mu.Lock()
	c.evals += int64(n)
	c.mu.Unlock()
}

func hash(s string) uint64 {
	h := fnv.New64a()
	h.Write([]byte(s))
	return h.Sum64()
}

// Nontrivial records a non-trivial case identified by key.
func (c *Collector) Nontrivial(key string) {
	if c == nil {
		return
	}
	h := hash(key)
	c.mu.Lock()
	c.nontrivial[h] = struct{}{}
	c.mu.Unlock()
}

// Class increments the histogram bucket name.
func (c *Collector) Class(name string) {
	if c == nil {
		return
	}
	c.mu.Lock()
	c.classes[name]++
	c.mu.Unlock()
}

// ClassN adds n to the histogram bucket name.
func (c *Collector) ClassN(name string, n int) {
	if c == nil {
		return
	}
	c.mu.Lock()
	c.classes[name] += int64(n)
	c.mu.Unlock()
}

// Excluded counts a case excluded by construction because of a known finding.
func (c *Collector) Excluded(key string) {
	if c == nil {
		return
	}
	c.mu.Lock()
	c.excluded[key]++
	c.mu.Unlock()
}

// WantSample tells whether the next Sample call would be kept. It allows
// callers to avoid building expensive sample descriptions.
func (c *Collector) WantSample() bool {
	if c == nil {
		return false
	}
	c.mu.Lock()
	defer c.mu.Unlock()
	n := c.sampleSeen
	// Keep the first two cases and then cases number 2^k*37 so samples come
	// from the whole run, deterministically.
	if n < 2 {
		return true
	}
	for k := int64(37); k <= n; k *= 4 {
		if k == n {
			return true
		}
	}
	return false
}

// Sample offers a literal case as a sample. Only a few are kept.
func (c *Collector) Sample(v interface{}) {
	if c == nil {
		return
	}
	keep := c.WantSample()
	c.mu.Lock()
	c.sampleSeen++
	if keep {
		if len(c.samples) >= c.maxSamples {
			copy(c.samples[2:], c.samples[3:])
			c.samples = c.samples[:len(c.samples)-1]
		}
		c.samples = append(c.samples, v)
	}
	c.mu.Unlock()
}

// SkipSample advances the sample counter without keeping anything.
func (c *Collector) SkipSample() {
	if c == nil {
		return
	}
	c.mu.Lock()
	c.sampleSeen++
	c.mu.Unlock()
}

// Assume records an assumption the check relies on.
func (c *Collector) Assume(s string) {
	if c == nil {
		return
	}
	c.mu.Lock()
	for _, a := range c.assumptions {
		if a == s {
			c.mu.Unlock()
			return
		}
	}
	c.assumptions = append(c.assumptions, s)
	c.mu.Unlock()
}

// Extra stores an additional coverage key.
func (c *Collector) Extra(k string, v interface{}) {
	if c == nil {
		return
	}
	c.mu.Lock()
	c.extra[k] = v
	c.mu.Unlock()
}

// AddExtra adds n to the integer coverage key k.
func (c *Collector) AddExtra(k string, n int64) {
	if c == nil {
		return
	}
	c.mu.Lock()
	old, _ := c.extra[k].(int64)
	c.extra[k] = old + n
	c.mu.Unlock()
}

type partial struct {
	PropertyID  string                 `json:"property_id"`
	Tier        string                 `json:"tier"`
	Seed        int64                  `json:"seed"`
	Shard       int                    `json:"shard"`
	Evaluations int64                  `json:"evaluations"`
	Nontrivial  []uint64               `json:"nontrivial_hashes"`
	Classes     map[string]int64       `json:"classes"`
	Samples     []interface{}          `json:"samples"`
	Excluded    map[string]int64       `json:"excluded_by_known_finding"`
	Rule        string                 `json:"rule"`
	Assumptions []string               `json:"assumptions"`
	Extra       map[string]interface{} `json:"extra"`
	Known       []string               `json:"known_findings_reported"`
	WallS       float64                `json:"wall_s"`
}

// Flush writes the partial evidence file named by VERIF_EV_OUT (if set).
func (c *Collector) Flush() {
	if c == nil {
		return
	}
	c.mu.Lock()
	defer c.mu.Unlock()

	out := os.Getenv("VERIF_EV_OUT")
	if out == "" {
		return
	}

	hs := make([]uint64, 0, len(c.nontrivial))
	for h := range c.nontrivial {
		hs = append(hs, h)
	}
	sort.Slice(hs, func(i, j int) bool { return hs[i] < hs[j] })

	shard, _ := Shard()
	p := partial{
		PropertyID:  c.ID,
		Tier:        Tier(),
		Seed:        Seed(),
		Shard:       shard,
		Evaluations: c.evals,
		Nontrivial:  hs,
		Classes:     c.classes,
		Samples:     c.samples,
		Excluded:    c.excluded,
		Rule:        c.Rule,
		Assumptions: c.assumptions,
		Extra:       c.extra,
		Known:       c.known,
		WallS:       time.Since(c.start).Seconds(),
	}
	bs, err := json.Marshal(p)
	if err != nil {
		fmt.Fprintf(os.Stderr, "ev: cannot marshal evidence: %v\n", err)
		bs, _ = json.Marshal(partial{PropertyID: c.ID, Tier: Tier(), Seed: Seed(),
			Evaluations: c.evals, Nontrivial: hs, Classes: c.classes, Rule: c.Rule,
			Samples: []interface{}{fmt.Sprintf("%v", c.samples)}})
	}
	if err := os.WriteFile(out, bs, 0o644); err != nil {
		fmt.Fprintf(os.Stderr, "ev: cannot write evidence: %v\n", err)
	}
}

// ---------------------------------------------------------------------------
// Known findings.

var (
	knownOnce sync.Once
	knownSet  map[string]string
)

func knownPath() string {
	if p := os.Getenv("VERIF_KNOWN"); p != "" {
		return p
	}
	return "/verif/KNOWN_FINDINGS.txt"
}

func loadKnown() {
	knownSet = make(map[string]string)
	f, err := os.Open(knownPath())
	if err != nil {
		return
	}
	defer f.Close()

	s := bufio.NewScanner(f)
	for s.Scan() {
		line := strings.TrimSpace(s.Text())
		if !strings.HasPrefix(line, "finding:") {
			continue
		}
		var prop, key string
		for _, f := range strings.Fields(line) {
			if strings.HasPrefix(f, "property=") {
				prop = strings.TrimPrefix(f, "property=")
			}
			if strings.HasPrefix(f, "key=") {
				key = strings.TrimPrefix(f, "key=")
			}
		}
		if prop != "" && key != "" {
			knownSet[prop+"/"+key] = line
		}
	}
}

// Known tells whether finding key of this collector's property is listed in
// KNOWN_FINDINGS.txt. The file is only ever read.
func (c *Collector) Known(key string) bool {
	if c == nil {
		return false
	}
	knownOnce.Do(loadKnown)
	_, ok := knownSet[c.ID+"/"+key]
	return ok
}

// ReportKnown prints the KNOWN-FINDING line for a listed finding whose witness
// still fails on the current tree. Each key is printed once per process.
func (c *Collector) ReportKnown(key string, what string) {
	if c == nil {
		return
	}
	c.mu.Lock()
	for _, k := range c.known {
		if k == key {
			c.mu.Unlock()
			return
		}
	}
	c.known = append(c.known, key)
	c.mu.Unlock()
	fmt.Printf("KNOWN-FINDING: property=%s key=%s %s\n", c.ID, key, what)
}
