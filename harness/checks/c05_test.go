package checks

import (
	"fmt"
	"math/big"
	"sort"
	"strings"
	"testing"

	"mltwist/internal/deps"
	"mltwist/internal/emulator"
	"mltwist/internal/state"
	"mltwist/internal/state/memory"
	"mltwist/pkg/expr"
	"mltwist/pkg/model"
	"mltwist/verifharness/internal/ev"
	"mltwist/verifharness/internal/irsem"

	"pgregory.net/rapid"
)

// hashProvider supplies deterministic values for state the emulator does not
// know. It records every request.
type hashProvider struct {
	seed     uint64
	regAsked []string
	memAsked []string
}

func provByte(seed uint64, key expr.Key, addr uint64) byte {
	x := seed ^ 0x1234567
	for _, c := range []byte(key) {
		x = (x ^ uint64(c)) * 0x100000001b3
	}
	x = (x ^ addr) * 0x9e3779b97f4a7c15
	x ^= x >> 31
	return byte(x >> 11)
}

func (p *hashProvider) Register(key expr.Key, w expr.Width) expr.Const {
	p.regAsked = append(p.regAsked, fmt.Sprintf("%s/%d", key, w))
	bs := make([]byte, w)
	for i := range bs {
		bs[i] = provByte(p.seed, "reg:"+key, uint64(i))
	}
	return expr.NewConst(bs, w)
}

func (p *hashProvider) Memory(key expr.Key, addr model.Addr, w expr.Width) expr.Const {
	p.memAsked = append(p.memAsked, fmt.Sprintf("%s@%x/%d", key, uint64(addr), w))
	bs := make([]byte, w)
	for i := range bs {
		bs[i] = provByte(p.seed, key, uint64(addr)+uint64(i))
	}
	return expr.NewConst(bs, w)
}

// c05Run executes block b of code from its start for at most n steps and
// returns a rendering of the final state.
func c05Run(code *deps.Code, b deps.Block, regs map[expr.Key]uint64, seed uint64) (string, string) {
	st := state.New()
	for k, v := range regs {
		st.Regs.Store(k, expr.ConstFromUint(v), 8)
	}
	prov := &hashProvider{seed: seed}
	var emu *emulator.Emulator
	var trace strings.Builder
	msg := catch(func() {
		emu = emulator.New(code, b.Begin(), prov, st)
		for i := 0; i < b.Num(); i++ {
			ip := emu.MustIP()
			if ip < b.Begin() || ip >= b.End() {
				break
			}
			ins, _ := b.Address(ip)
			fmt.Fprintf(&trace, "%x:%s; ", uint64(ip), ins.String())
			if _, err := emu.Step(); err != nil {
				fmt.Fprintf(&trace, "step error: %v", err)
				break
			}
		}
	})
	if msg != "" {
		return "", "emulation crashed: " + msg + " trace: " + trace.String()
	}
	// render final state
	var parts []string
	for k, v := range st.Regs.Values() {
		c, ok := v.(expr.Const)
		if !ok {
			return "", fmt.Sprintf("register %s holds a non-constant %s", k, irsem.String(v))
		}
		parts = append(parts, fmt.Sprintf("%s=%x", k, irsem.FromBytes(c.Bytes())))
	}
	for key, mem := range st.Mems {
		for _, iv := range mem.Blocks().Intervals() {
			for a := iv.Begin(); a < iv.End(); a++ {
				e, ok := mem.Load(a, 1)
				if !ok {
					return "", fmt.Sprintf("byte %x of %s listed in Blocks() cannot be loaded", uint64(a), key)
				}
				v := irsem.Eval(e, nil)
				if byte(v.Uint64()) != provByte(seed, key, uint64(a)) {
					parts = append(parts, fmt.Sprintf("%s[%x]=%02x", key, uint64(a), v.Uint64()))
				}
			}
		}
	}
	sort.Strings(parts)
	return strings.Join(parts, " "), trace.String()
}

var _ = memory.NewSparse
var _ = big.NewInt

func TestC05(t *testing.T) {
	col := ev.New("C05", "rapid: (2/3) valid programs of 1-4 blocks of 2-9 synthetic variable-length instructions (registers, two "+
		"memories with addresses in a 25-byte window so accesses alias, type flags, terminating jumps, fall-through-only ip "+
		"writers), (1/3) generated RV64IMA programs lifted by the real front end; a random history of 1-12 instruction moves (aimed at the reported bounds) and block moves is applied to "+
		"one copy of the code; original and reordered block are executed by the real emulator from the block start with "+
		"identical pre-populated registers and a deterministic state provider, and the final registers (incl. instruction "+
		"pointer = control transfer) and memory are compared. non-trivial = >=1 accepted move of an instruction that shares "+
		"a register or memory with another instruction of its block; distinct by (program, history)")
	defer col.Flush()

	rapid.Check(t, func(t *rapid.T) {
		col.Case()
		var orig, moved *deps.Code
		var p fmt.Stringer
		byAddr := map[uint64]*sIns{}
		realCode := uniformInt(t, 3, "realRiscvCode") == 0
		if realCode {
			// blocks of really lifted RV64IMA instructions
			rp := drawRVProgram(t, 24)
			var err1, err2 error
			orig, err1 = buildRVCode(rp)
			moved, err2 = buildRVCode(rp)
			if err1 != nil || err2 != nil {
				t.Fatalf("cannot build code model: %v %v\n  program %s", err1, err2, rp)
			}
			for _, b := range orig.Blocks() {
				for _, in := range b.Instructions() {
					d := &sIns{addr: uint64(in.OrigAddr()), effects: in.Effects(), length: int(in.Len())}
					d.describe()
					byAddr[d.addr] = d
				}
			}
			p = rp
		} else {
			if rapid.Bool().Draw(t, "sparseDeps") {
				synthTune(8, 30)
			} else {
				synthTune(4, 14)
			}
			sp := drawProgram(t, 4, 9)
			synthTune(4, 14)
			orig = buildCode(t, sp)
			moved = buildCode(t, sp)
			for _, s := range sp.ins {
				byAddr[s.addr] = s
			}
			p = sp
		}

		// history
		var hist strings.Builder
		nMoves := 1 + uniformInt(t, 12, "nMoves")
		accepted := 0
		touched := map[int]bool{}
		sharing := false
		for i := 0; i < nMoves; i++ {
			if uniformInt(t, 6, "blockMove") == 0 && moved.Len() > 1 {
				from, to := uniformInt(t, moved.Len(), "bf"), uniformInt(t, moved.Len(), "bt")
				err := moved.Move(from, to)
				fmt.Fprintf(&hist, "blk(%d->%d)=%v;", from, to, err == nil)
				continue
			}
			// pick a block by ORIGINAL identity (begin address)
			ob := orig.Index(uniformInt(t, orig.Len(), "mb"))
			mb, _ := moved.Address(ob.Begin())
			n := mb.Num()
			from := uniformInt(t, n, "from")
			if uniformInt(t, 3, "preferMovable") != 0 {
				var movable []int
				for k := 0; k < n; k++ {
					if mb.UpperBound(k) > mb.LowerBound(k) {
						movable = append(movable, k)
					}
				}
				if len(movable) > 0 {
					from = movable[uniformInt(t, len(movable), "movableIdx")]
				}
			}
			lo, hi := mb.LowerBound(from), mb.UpperBound(from)
			to := lo - 1 + uniformInt(t, hi-lo+3, "to")
			if to < 0 || to >= n {
				to = from
			}
			movedIns := byAddr[uint64(mb.Index(from).OrigAddr())]
			var err error
			if msg := catch(func() { err = mb.Move(from, to) }); msg != "" {
				t.Fatalf("Move(%d,%d): %s\n  program %s", from, to, msg, p)
			}
			fmt.Fprintf(&hist, "ins(@%x,%d->%d)=%v;", uint64(ob.Begin()), from, to, err == nil)
			if err == nil && from != to {
				accepted++
				touched[ob.Idx()] = true
				for _, x := range mb.Instructions() {
					o := byAddr[uint64(x.OrigAddr())]
					if o == movedIns {
						continue
					}
					if keysIntersect(union(o.regsRead, o.regsWrite), union(movedIns.regsRead, movedIns.regsWrite)) ||
						keysIntersect(union(o.memRead, o.memWrite), union(movedIns.memRead, movedIns.memWrite)) {
						sharing = true
					}
				}
			}
		}
		// instruction addresses of untouched blocks and all block begins unchanged
		for _, ob := range orig.Blocks() {
			mb, ok := moved.Address(ob.Begin())
			if !ok || mb.Begin() != ob.Begin() || mb.End() != ob.End() {
				t.Fatalf("block at %x changed its address range after moves (history %s)\n  program %s", uint64(ob.Begin()), hist.String(), p)
			}
		}

		// initial state
		seed := rapid.Uint64().Draw(t, "stateSeed")
		regs := map[expr.Key]uint64{}
		// every register a synthetic instruction can name gets a full-width initial
		// value (also the registers that carry the name of a memory key): a register
		// left to the lazy provider would be asked for at the width of its FIRST read,
		// which depends on the instruction order and is no property of the code
		for i, k := range append(append([]expr.Key{}, synthRegsAll...), synthMems...) {
			switch uniformInt(t, 4, "regKind") {
			case 0:
				regs[k] = synthWindow + uint64(uniformInt(t, 24, "ptr"))
			case 1:
				regs[k] = uint64(uniformInt(t, 300, "small"))
			default:
				regs[k] = rapid.Uint64().Draw(t, "regVal") + uint64(i)
			}
		}

		if realCode {
			for r := 1; r < 32; r++ {
				regs[expr.Key(fmt.Sprintf("x%d", r))] = drawRegVal(t, 64, "xreg")
			}
			regs["x8"], regs["x9"] = rvDataBase, rvDataBase+8
			col.Class("real-riscv-code")
		} else {
			col.Class("synthetic-code")
		}
		for _, ob := range orig.Blocks() {
			mb, _ := moved.Address(ob.Begin())
			want, tr1 := c05Run(orig, ob, regs, seed)
			got, tr2 := c05Run(moved, mb, regs, seed)
			if want == "" && strings.HasPrefix(tr1, "emulation crashed") {
				t.Fatalf("original block: %s\n  program %s", tr1, p)
			}
			if got == "" && strings.HasPrefix(tr2, "emulation crashed") {
				t.Fatalf("reordered block: %s (history %s)\n  program %s", tr2, hist.String(), p)
			}
			if want != got {
				t.Fatalf("reordered block at %x ends in a different state (history %s)\n  original : %s\n  reordered: %s\n  trace original : %s\n  trace reordered: %s\n  program %s",
					uint64(ob.Begin()), hist.String(), want, got, tr1, tr2, p)
			}
		}
		switch {
		case accepted > 0 && sharing:
			col.Class("accepted-move-of-sharing-instruction")
			col.Nontrivial(p.String() + hist.String())
		case accepted > 0:
			col.Class("accepted-move")
		default:
			col.Class("no-accepted-move")
		}
		col.AddExtra("accepted_instruction_moves", int64(accepted))
		if col.WantSample() {
			col.Sample(map[string]string{"program": p.String(), "history": hist.String()})
		} else {
			col.SkipSample()
		}
	})
}
