package checks

import (
	"bytes"
	"fmt"
	"sort"
	"testing"

	"mltwist/internal/elf"
	"mltwist/pkg/model"
	"mltwist/verifharness/internal/elfgen"
	"mltwist/verifharness/internal/ev"

	"pgregory.net/rapid"
)

// c20CheckMemory compares a loaded memory with the expected blocks.
func c20CheckMemory(mem *elf.Memory, want []expBlock, t *rapid.T, what string) string {
	// sorted, non-overlapping
	for i := range mem.Blocks {
		if i > 0 {
			p, c := mem.Blocks[i-1], mem.Blocks[i]
			if c.Begin() < p.Begin() || (p.Len() > 0 && c.Len() > 0 && c.Begin() < p.End()) {
				return fmt.Sprintf("%s blocks %d and %d are unsorted or overlap", what, i-1, i)
			}
		}
	}
	var got []expBlock
	for _, b := range mem.Blocks {
		if b.Len() != len(b.Bytes()) || uint64(b.End()) != uint64(b.Begin())+uint64(b.Len()) {
			return what + " block has inconsistent Len/End"
		}
		if b.Len() > 0 {
			got = append(got, expBlock{uint64(b.Begin()), b.Bytes()})
		}
	}
	var exp []expBlock
	for _, b := range want {
		if len(b.bytes) > 0 {
			exp = append(exp, b)
		}
	}
	sort.SliceStable(exp, func(i, j int) bool { return exp[i].addr < exp[j].addr })
	if len(got) != len(exp) {
		return fmt.Sprintf("%s has %d non-empty blocks, model %d", what, len(got), len(exp))
	}
	for i := range exp {
		if got[i].addr != exp[i].addr || !bytes.Equal(got[i].bytes, exp[i].bytes) {
			return fmt.Sprintf("%s block %d: got (%x, %d bytes %x...), want (%x, %d bytes %x...)", what, i,
				got[i].addr, len(got[i].bytes), head(got[i].bytes), exp[i].addr, len(exp[i].bytes), head(exp[i].bytes))
		}
	}
	// address lookups
	probe := func(a uint64) string {
		var wantBs []byte
		found := false
		for _, b := range exp {
			if a >= b.addr && a < b.addr+uint64(len(b.bytes)) {
				wantBs, found = b.bytes[a-b.addr:], true
			}
		}
		var gotBs []byte
		if msg := catch(func() { gotBs = mem.Address(model.Addr(a)) }); msg != "" {
			return fmt.Sprintf("%s.Address(%x): %s", what, a, msg)
		}
		if !found {
			if len(gotBs) != 0 {
				return fmt.Sprintf("%s.Address(%x) returns %d bytes for an unmapped address", what, a, len(gotBs))
			}
			return ""
		}
		if !bytes.Equal(gotBs, wantBs) {
			return fmt.Sprintf("%s.Address(%x) returns %d bytes (%x...), want %d bytes (%x...)", what, a, len(gotBs), head(gotBs), len(wantBs), head(wantBs))
		}
		return ""
	}
	for _, b := range exp {
		n := uint64(len(b.bytes))
		for _, a := range []uint64{b.addr, b.addr + n - 1, b.addr + n, b.addr - 1, b.addr + uint64(uniformInt(t, int(n), "probe"))} {
			if msg := probe(a); msg != "" {
				return msg
			}
		}
	}
	if msg := probe(uint64(uniformInt(t, 1<<20, "probeAny"))); msg != "" {
		return msg
	}
	return ""
}

func head(b []byte) []byte {
	if len(b) > 8 {
		return b[:8]
	}
	return b
}

func TestC20(t *testing.T) {
	col := ev.New("C20", "rapid: ELF layout models (class 32/64, little/big endian, type none/rel/exec/dyn/core, 0-5 "+
		"program headers (PT_LOAD and others, filesz <,=,> memsz, bss up to 4 KiB, overlapping with probability ~1/6, "+
		"adjacent), 0-6 sections (PROGBITS/NOBITS/NOTE, with/without EXECINSTR, addr 0/non-zero, size 0/non-zero, "+
		"overlapping/adjacent; an eighth of the addresses unaligned), optional missing section table (then half of the files have a loadable segment whose file image is cut short by the end of the file)) written by an independent ELF writer; expected memory "+
		"image and code blocks computed from the model and the file bytes, never by re-parsing. An error is never a "+
		"violation except that rel/core/none types and overlapping segments/sections MUST be rejected; every success must "+
		"equal the model (sorted non-overlapping blocks, bytes, zero padding, Address lookups at starts/interiors/ends/"+
		"gaps, entry point). non-trivial = accepted file with >=2 code sections, a skipped section and a bss tail, or a "+
		"rejection for overlap; distinct by model rendering")
	defer col.Flush()

	rapid.Check(t, func(t *rapid.T) {
		col.Case()
		m := drawELFModel(t)
		file, _ := m.Bytes()
		name := writeScratch(file)
		desc := modelString(m)

		var p *elf.Parser
		var err error
		if msg := catch(func() { p, err = elf.NewParser(name) }); msg != "" {
			t.Fatalf("NewParser: %s\n  %s", msg, desc)
		}
		mustReject := m.Type == elfgen.ETNone || m.Type == elfgen.ETRel || m.Type == elfgen.ETCore
		if mustReject {
			if err == nil {
				p.Close()
				t.Fatalf("file of type %d was accepted\n  %s", m.Type, desc)
			}
			col.Class("rejected/type")
			return
		}
		if err != nil {
			t.Fatalf("well formed executable/shared file rejected by NewParser: %v\n  %s", err, desc)
		}
		defer p.Close()
		if uint64(p.Entrypoint()) != m.Entry && m.Class64 || (!m.Class64 && uint64(p.Entrypoint()) != m.Entry&0xffffffff) {
			t.Fatalf("Entrypoint %x, model %x\n  %s", uint64(p.Entrypoint()), m.Entry, desc)
		}

		// program memory
		segBlocks, memszLess, segOverlap, anyLoad := modelSegments(m, file)
		var mem *elf.Memory
		if msg := catch(func() { mem, err = p.Memory() }); msg != "" {
			t.Fatalf("Memory(): %s\n  %s", msg, desc)
		}
		bss := false
		for _, s := range m.Segments {
			if s.Type == elfgen.PTLoad && s.Memsz > s.Filesz {
				bss = true
			}
		}
		switch {
		case err != nil:
			if !(memszLess || segOverlap || !anyLoad) {
				// an error is permitted by the statement; record it
				col.Class("memory/error-on-valid-layout")
			} else {
				col.Class("memory/rejected")
			}
		case segOverlap && !memszLess:
			t.Fatalf("Memory() accepted overlapping loadable segments\n  %s", desc)
		default:
			if msg := c20CheckMemory(mem, segBlocks, t, "Memory()"); msg != "" {
				t.Fatalf("%s\n  %s", msg, desc)
			}
			col.Class("memory/accepted")
		}

		// code image
		codeBlocks, codeOverlap := modelCode(m, file)
		var code *elf.Memory
		if msg := catch(func() { code, err = p.MachineCode() }); msg != "" {
			t.Fatalf("MachineCode(): %s\n  %s", msg, desc)
		}
		skipped := len(m.Sections) > len(codeBlocks)
		switch {
		case err != nil:
			if codeOverlap {
				col.Class("code/rejected-overlap")
				col.Nontrivial(desc)
			} else if len(codeBlocks) == 0 {
				col.Class("code/rejected-none")
			} else {
				col.Class("code/error-on-valid-layout")
			}
		case codeOverlap:
			t.Fatalf("MachineCode() accepted overlapping code sections\n  %s", desc)
		default:
			if msg := c20CheckMemory(code, codeBlocks, t, "MachineCode()"); msg != "" {
				t.Fatalf("%s\n  %s", msg, desc)
			}
			col.Class(fmt.Sprintf("code/accepted-%d-sections", len(codeBlocks)))
			if len(codeBlocks) >= 2 && skipped && bss {
				col.Nontrivial(desc)
			}
		}
		if segOverlap {
			col.Nontrivial(desc)
		}
		if col.WantSample() {
			col.Sample(desc)
		} else {
			col.SkipSample()
		}
	})
}
