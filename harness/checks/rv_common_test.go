package checks

import (
	"fmt"
	"sync"

	"mltwist/internal/riscv"
	"mltwist/verifharness/internal/rvref"

	"pgregory.net/rapid"
)

var (
	rvParsersOnce sync.Once
	rvParsers     map[rvref.Cfg]riscv.Parser
	rvParsersErr  string
)

// rvParser returns the front end for cfg; all 8 are built once.
func rvParser(cfg rvref.Cfg) (riscv.Parser, string) {
	rvParsersOnce.Do(func() {
		rvParsers = map[rvref.Cfg]riscv.Parser{}
		for _, c := range rvref.AllCfgs() {
			c := c
			msg := catch(func() {
				v := riscv.Variant32
				if c.XLEN == 64 {
					v = riscv.Variant64
				}
				var exts []riscv.Extension
				if c.M {
					exts = append(exts, riscv.ExtM)
				}
				if c.A {
					exts = append(exts, riscv.ExtA)
				}
				rvParsers[c] = riscv.NewParser(v, exts...)
			})
			if msg != "" {
				rvParsersErr = fmt.Sprintf("NewParser(%s): %s", c, msg)
			}
		}
	})
	return rvParsers[cfg], rvParsersErr
}

func drawCfg(t *rapid.T) rvref.Cfg {
	cfgs := rvref.AllCfgs()
	return cfgs[rapid.IntRange(0, len(cfgs)-1).Draw(t, "cfg")]
}

func wordBytes(w uint32) []byte {
	return []byte{byte(w), byte(w >> 8), byte(w >> 16), byte(w >> 24)}
}

// drawIns draws an instruction of cfg: first the extension group (so the
// small M and A groups are as frequent as the base set), then a mnemonic.
func drawIns(t *rapid.T, cfg rvref.Cfg) *rvref.Ins {
	groups := map[byte][]*rvref.Ins{}
	var order []byte
	for _, in := range rvref.Table(cfg) {
		if _, ok := groups[in.Ext]; !ok {
			order = append(order, in.Ext)
		}
		groups[in.Ext] = append(groups[in.Ext], in)
	}
	g := groups[order[rapid.IntRange(0, len(order)-1).Draw(t, "ext")]]
	// rapid biases integers towards the lower bound; mix with a second draw so
	// late table entries are not starved.
	i := rapid.IntRange(0, len(g)-1).Draw(t, "ins")
	if rapid.Bool().Draw(t, "insFromEnd") {
		i = len(g) - 1 - i
	}
	return g[i]
}

// drawInsWord draws an instruction of cfg with all bits outside of its fixed
// pattern random.
func drawInsWord(t *rapid.T, cfg rvref.Cfg) (*rvref.Ins, uint32) {
	in := drawIns(t, cfg)
	r := rapid.Uint32().Draw(t, "free")
	// x0 as a source makes effects (addresses in particular) constant after folding:
	// make that special case frequent
	if uniformInt(t, 5, "rs1x0") == 0 {
		r &^= 0x1f << 15
	}
	if uniformInt(t, 8, "rs2x0") == 0 {
		r &^= 0x1f << 20
	}
	return in, (r &^ in.Mask) | in.Match
}
