package checks

import (
	"fmt"
	"strings"
	"testing"

	"mltwist/internal/deps"
	"mltwist/pkg/model"
	"mltwist/verifharness/internal/ev"

	"pgregory.net/rapid"
)

// buildCode builds the code model of a valid program.
func buildCode(t *rapid.T, p *sProgram) *deps.Code {
	var code *deps.Code
	var err error
	if msg := catch(func() { code, err = deps.NewCode(model.Addr(p.entry), p.parserSeq()) }); msg != "" {
		t.Fatalf("NewCode: %s\n  program %s", msg, p)
	}
	if err != nil {
		t.Fatalf("NewCode failed on a valid program: %v\n  program %s", err, p)
	}
	return code
}

// c07Model mirrors the order of instructions (by original address) per block and
// the block order.
type c07Model struct {
	blocks [][]uint64 // indexed by ORIGINAL block position; instruction order
	order  []int      // current block order: order[pos] = original block id
	begin  []uint64
	lens   map[uint64]uint64
}

func c07Rotate(xs []uint64, from, to int) {
	x := xs[from]
	if from < to {
		copy(xs[from:to], xs[from+1:to+1])
	} else {
		copy(xs[to+1:from+1], xs[to:from])
	}
	xs[to] = x
}

func c07RotateInt(xs []int, from, to int) {
	x := xs[from]
	if from < to {
		copy(xs[from:to], xs[from+1:to+1])
	} else {
		copy(xs[to+1:from+1], xs[to:from])
	}
	xs[to] = x
}

func (m *c07Model) check(code *deps.Code, hist string) string {
	bs := code.Blocks()
	if len(bs) != len(m.order) || code.Len() != len(m.order) {
		return "number of blocks changed"
	}
	for pos, b := range bs {
		id := m.order[pos]
		if b.Idx() != pos {
			return fmt.Sprintf("block at position %d reports Idx %d", pos, b.Idx())
		}
		if uint64(b.Begin()) != m.begin[id] {
			return fmt.Sprintf("block at position %d begins at %x, want %x (block moves must not change addresses)", pos, uint64(b.Begin()), m.begin[id])
		}
		want := m.blocks[id]
		ins := b.Instructions()
		if len(ins) != len(want) || b.Num() != len(want) {
			return fmt.Sprintf("block %d has %d instructions, want %d", pos, len(ins), len(want))
		}
		a := m.begin[id]
		for i, in := range ins {
			if uint64(in.OrigAddr()) != want[i] {
				return fmt.Sprintf("block %d position %d holds instruction %x, model says %x", pos, i, uint64(in.OrigAddr()), want[i])
			}
			if in.Idx() != i {
				return fmt.Sprintf("block %d position %d: Idx() = %d", pos, i, in.Idx())
			}
			if uint64(in.Begin()) != a {
				return fmt.Sprintf("block %d position %d: address %x, want contiguous %x", pos, i, uint64(in.Begin()), a)
			}
			if uint64(in.End()) != a+m.lens[want[i]] || uint64(in.Len()) != m.lens[want[i]] {
				return fmt.Sprintf("block %d position %d: End/Len inconsistent", pos, i)
			}
			// bounds contain the instruction itself <=> it follows all instructions it
			// depends on and precedes all that depend on it
			lo, hi := b.LowerBound(i), b.UpperBound(i)
			if !(lo <= i && i <= hi) {
				return fmt.Sprintf("block %d position %d lies outside its own bounds [%d,%d]", pos, i, lo, hi)
			}
			if lo < 0 || hi >= len(want) {
				return fmt.Sprintf("block %d position %d: bounds [%d,%d] outside the block", pos, i, lo, hi)
			}
			// address lookups
			got, ok := b.Address(in.Begin())
			if !ok || got.OrigAddr() != in.OrigAddr() {
				return fmt.Sprintf("Block.Address(%x) does not find the instruction at its current address", uint64(in.Begin()))
			}
			cb, ok := code.Address(in.Begin())
			if !ok || cb.Begin() != b.Begin() {
				return fmt.Sprintf("Code.Address(%x) does not find block %d", uint64(in.Begin()), pos)
			}
			if m.lens[want[i]] > 1 {
				if _, ok := b.Address(in.Begin() + 1); ok {
					return fmt.Sprintf("Block.Address(%x) finds an instruction in the middle of one", uint64(in.Begin())+1)
				}
				if cb, ok := code.Address(in.Begin() + 1); !ok || cb.Begin() != b.Begin() {
					return fmt.Sprintf("Code.Address(%x) (mid-instruction) does not find block %d", uint64(in.Begin())+1, pos)
				}
			}
			a += m.lens[want[i]]
		}
		if uint64(b.End()) != a {
			return fmt.Sprintf("block %d ends at %x, instructions end at %x", pos, uint64(b.End()), a)
		}
		if _, ok := b.Address(b.End()); ok {
			return "Block.Address(End) finds an instruction"
		}
	}
	return ""
}

func TestC07(t *testing.T) {
	col := ev.New("C07", "rapid state machine over one deps.Code built from a generated valid program (1-5 blocks of 1-7 "+
		"synthetic variable-length instructions over small register/memory pools so dependencies are dense): instruction "+
		"moves with indices drawn from [-2, n+1], block moves likewise, address lookups of starts/mid-instruction/gap/"+
		"outside addresses. After every action: a move succeeds iff both indices are valid and the target lies within the "+
		"bounds reported before the move; rejected => nothing changed; accepted => model rotation; every instruction within "+
		"its own bounds (<=> dependency order preserved), contiguous addresses in current order, Block.Address / "+
		"Code.Address find every instruction and block, block moves permute positions only. non-trivial = history with "+
		">=3 accepted instruction moves, >=1 rejected move and >=1 block move; distinct by history")
	defer col.Flush()

	rapid.Check(t, func(t *rapid.T) {
		col.Case()
		if rapid.Bool().Draw(t, "sparseDeps") {
			synthTune(12, 40)
		} else {
			synthTune(4, 14)
		}
		p := drawProgram(t, 5, 7)
		synthTune(4, 14)
		code := buildCode(t, p)
		m := &c07Model{lens: map[uint64]uint64{}}
		for i, b := range code.Blocks() {
			var ids []uint64
			for _, in := range b.Instructions() {
				ids = append(ids, uint64(in.OrigAddr()))
				m.lens[uint64(in.OrigAddr())] = uint64(in.Len())
			}
			m.blocks = append(m.blocks, ids)
			m.order = append(m.order, i)
			m.begin = append(m.begin, uint64(b.Begin()))
		}
		var hist strings.Builder
		accepted, rejected, blockMoves := 0, 0, 0
		if msg := m.check(code, ""); msg != "" {
			t.Fatalf("fresh code: %s\n  program %s", msg, p)
		}

		t.Repeat(map[string]func(*rapid.T){
			"insMove": func(t *rapid.T) {
				pos := uniformInt(t, len(m.order), "block")
				b := code.Index(pos)
				n := b.Num()
				from := uniformInt(t, n+4, "from") - 2
				to := uniformInt(t, n+4, "to") - 2
				// a third of the time pick an instruction that can really move
				if uniformInt(t, 2, "preferMovable") == 0 {
					var movable []int
					for i := 0; i < n; i++ {
						if b.UpperBound(i) > b.LowerBound(i) {
							movable = append(movable, i)
						}
					}
					if len(movable) > 0 {
						from = movable[uniformInt(t, len(movable), "movableIdx")]
					}
				}
				valid := from >= 0 && from < n && to >= 0 && to < n
				want := false
				lo, hi := -1, -1
				if from >= 0 && from < n {
					lo, hi = b.LowerBound(from), b.UpperBound(from)
					// half of the time aim inside (or just outside) the reported bounds
					if uniformInt(t, 4, "aim") != 0 {
						to = lo - 1 + uniformInt(t, hi-lo+3, "toAimed")
						valid = to >= 0 && to < n
					}
					want = valid && lo <= to && to <= hi
				}
				var err error
				if msg := catch(func() { err = b.Move(from, to) }); msg != "" {
					t.Fatalf("Move(%d,%d) in block %d of %d instructions: %s (history %s)\n  program %s", from, to, pos, n, msg, hist.String(), p)
				}
				fmt.Fprintf(&hist, "ins(b%d,%d->%d)=%v;", pos, from, to, err == nil)
				if (err == nil) != want {
					t.Fatalf("Move(%d,%d) in block %d (n=%d, bounds of %d: [%d,%d]) returned %v, want success=%v (history %s)\n  program %s",
						from, to, pos, n, from, lo, hi, err, want, hist.String(), p)
				}
				if err == nil {
					c07Rotate(m.blocks[m.order[pos]], from, to)
					if from != to {
						accepted++
					}
				} else {
					rejected++
				}
			},
			"blockMove": func(t *rapid.T) {
				n := len(m.order)
				from := rapid.IntRange(-2, n+1).Draw(t, "bfrom")
				to := rapid.IntRange(-2, n+1).Draw(t, "bto")
				valid := from >= 0 && from < n && to >= 0 && to < n
				var err error
				if msg := catch(func() { err = code.Move(from, to) }); msg != "" {
					t.Fatalf("Code.Move(%d,%d): %s (history %s)", from, to, msg, hist.String())
				}
				fmt.Fprintf(&hist, "blk(%d->%d)=%v;", from, to, err == nil)
				if (err == nil) != valid {
					t.Fatalf("Code.Move(%d,%d) with %d blocks returned %v (history %s)", from, to, n, err, hist.String())
				}
				if err == nil {
					c07RotateInt(m.order, from, to)
					if from != to {
						blockMoves++
					}
				}
			},
			"lookup": func(t *rapid.T) {
				first, last := p.ins[0], p.ins[len(p.ins)-1]
				a := first.addr - 4 + uint64(rapid.IntRange(0, int(last.end()-first.addr)+8).Draw(t, "addr"))
				// model: which original block contains a?
				wantBlock := -1
				for id, ids := range m.blocks {
					var ln uint64
					for _, x := range ids {
						ln += m.lens[x]
					}
					if a >= m.begin[id] && a < m.begin[id]+ln {
						wantBlock = id
					}
				}
				var b deps.Block
				var ok bool
				if msg := catch(func() { b, ok = code.Address(model.Addr(a)) }); msg != "" {
					t.Fatalf("Code.Address(%x): %s", a, msg)
				}
				if ok != (wantBlock >= 0) || (ok && uint64(b.Begin()) != m.begin[wantBlock]) {
					t.Fatalf("Code.Address(%x) = (%v), model block %d (history %s)\n  program %s", a, ok, wantBlock, hist.String(), p)
				}
			},
			"": func(t *rapid.T) {
				if msg := m.check(code, hist.String()); msg != "" {
					t.Fatalf("%s (history %s)\n  program %s", msg, hist.String(), p)
				}
			},
		})
		switch {
		case accepted >= 3 && rejected >= 1 && blockMoves >= 1:
			col.Class("rich-history")
			col.Nontrivial(p.String() + hist.String())
		case accepted >= 1:
			col.Class("some-accepted")
		default:
			col.Class("no-accepted-move")
		}
		col.AddExtra("accepted_instruction_moves", int64(accepted))
		col.AddExtra("rejected_instruction_moves", int64(rejected))
		col.AddExtra("block_moves", int64(blockMoves))
		if col.WantSample() {
			col.Sample(map[string]string{"program": p.String(), "history": hist.String()})
		} else {
			col.SkipSample()
		}
	})
}
