package checks

import (
	"fmt"
	"math/big"
	"runtime/debug"
	"strings"

	"mltwist/pkg/expr"
	"mltwist/verifharness/internal/irsem"

	"pgregory.net/rapid"
)

// catch runs f and reports a panic as an error string (with a short stack).
func catch(f func()) (msg string) {
	defer func() {
		if r := recover(); r != nil {
			st := string(debug.Stack())
			lines := strings.Split(st, "\n")
			keep := make([]string, 0, 12)
			for _, l := range lines {
				if strings.Contains(l, "mltwist/") && !strings.Contains(l, "verifharness") {
					keep = append(keep, strings.TrimSpace(l))
					if len(keep) >= 6 {
						break
					}
				}
			}
			msg = fmt.Sprintf("panic: %v [%s]", r, strings.Join(keep, " <- "))
		}
	}()
	f()
	return ""
}

func constVal(c expr.Const) *big.Int { return irsem.FromBytes(c.Bytes()) }

func hexLE(bs []byte) string {
	var sb strings.Builder
	for i := len(bs) - 1; i >= 0; i-- {
		fmt.Fprintf(&sb, "%02x", bs[i])
	}
	return sb.String()
}

// widthClass buckets a width for coverage keys.
func widthClass(w expr.Width) string {
	switch {
	case w == 1:
		return "1"
	case w <= 4:
		return "2-4"
	case w <= 8:
		return "5-8"
	case w <= 16:
		return "9-16"
	case w < 255:
		return "17-254"
	}
	return "255"
}

func drawEnvSeed(t *rapid.T, label string) uint64 {
	return rapid.Uint64().Draw(t, label)
}

func cloneBytes(b []byte) []byte {
	c := make([]byte, len(b))
	copy(c, b)
	return c
}

// uniformInt draws an integer in [0, n) with a flat distribution. rapid biases
// integer generators towards small values, which starves e.g. registers late in
// a pool; scrambling a 64-bit draw flattens the distribution and still shrinks
// towards index 0.
func uniformInt(t *rapid.T, n int, label string) int {
	if n <= 1 {
		return 0
	}
	x := rapid.Uint64().Draw(t, label)
	if x == 0 {
		return 0
	}
	x *= 0x9e3779b97f4a7c15
	x ^= x >> 29
	return int((x >> 16) % uint64(n))
}
