package checks

import (
	"fmt"
	"os"
	"path/filepath"
	"strings"
	"sync"

	"mltwist/internal/consoleui"
	"mltwist/internal/consoleui/disassemble"
	"mltwist/internal/consoleui/emulate"
	"mltwist/internal/deps"
	"mltwist/internal/riscv"
	"mltwist/internal/state"
	"mltwist/internal/state/memory"
	"mltwist/pkg/model"
)

// scriptReader feeds the UI line reader: one line per Read call, first the
// scripted lines, then the default line for ever (so prompt loops terminate and
// EOF never occurs).
type scriptReader struct {
	lines    []string
	dflt     string
	consumed int
	// adapt, if set, may replace a line given the prompt the UI printed last
	// (see lastPrompt).
	adapt func(prompt, line string) string
}

func (r *scriptReader) Read(p []byte) (int, error) {
	line := r.dflt
	if len(r.lines) > 0 {
		line, r.lines = r.lines[0], r.lines[1:]
	}
	if r.adapt != nil {
		line = r.adapt(lastPrompt(), line)
	}
	r.consumed++
	if r.consumed > promptLoopLimit {
		// Not a time budget: after the scripted lines every further line is the
		// default answer, a valid number. A UI call that has read this many lines
		// keeps rejecting valid input (or loops); the panic is reported by the
		// caller as a crash of that call together with the last prompt.
		r.consumed = 0
		panic(fmt.Sprintf("the UI read more than %d input lines during one call without finishing; last prompt %q, last answer %q", promptLoopLimit, lastPrompt(), line))
	}
	n := copy(p, line+"\n")
	return n, nil
}

// promptLoopLimit bounds the input lines one UI call may consume (the longest
// legitimate call answers one prompt per unknown register or memory range of one
// instruction plus the scripted invalid answers: a few dozen).
const promptLoopLimit = 5000

var uiInput = &scriptReader{dflt: "0"}
var uiInputOnce sync.Once

// setInput installs the scripted lines for the following UI calls.
func setInput(lines ...string) {
	uiInputOnce.Do(func() { consoleui.VerifSetInput(uiInput) })
	uiInput.lines = append([]string{}, lines...)
	uiInput.consumed = 0
}

var (
	captureFile *os.File
	captureMu   sync.Mutex
)

// captureStdout runs f with os.Stdout redirected into a scratch file and
// returns what was written.
func captureStdout(f func()) string {
	captureMu.Lock()
	defer captureMu.Unlock()
	if captureFile == nil {
		var err error
		captureFile, err = os.OpenFile(filepath.Join(scratchDir(), "stdout.capture"), os.O_RDWR|os.O_CREATE|os.O_TRUNC, 0o644)
		if err != nil {
			panic(err)
		}
	}
	captureFile.Truncate(0)
	captureFile.Seek(0, 0)
	old := os.Stdout
	os.Stdout = captureFile
	func() {
		defer func() { os.Stdout = old }()
		f()
	}()
	n, _ := captureFile.Seek(0, 1)
	bs := make([]byte, n)
	captureFile.ReadAt(bs, 0)
	return string(bs)
}

// lastPrompt returns the unterminated last line of the captured output: the
// prompt the UI is waiting at ("" outside captureStdout).
func lastPrompt() string {
	if captureFile == nil {
		return ""
	}
	n, err := captureFile.Seek(0, 1)
	if err != nil || n == 0 {
		return ""
	}
	from := n - 400
	if from < 0 {
		from = 0
	}
	bs := make([]byte, n-from)
	captureFile.ReadAt(bs, from)
	t := string(bs)
	if i := strings.LastIndexByte(t, '\n'); i >= 0 {
		t = t[i+1:]
	}
	return t
}

// newProgramUI builds the UI of cmd/mltwist/main.go for a generated RV64
// program: disassembler mode with the real emulation factory.
func newProgramUI(p *rvProgram) (*consoleui.UI, *deps.Code, error) {
	code, err := buildRVCode(p)
	if err != nil {
		return nil, nil, err
	}
	ui, err := newCodeUI(code, p)
	return ui, code, err
}

func newCodeUI(code *deps.Code, p *rvProgram) (*consoleui.UI, error) {
	var blocks []memory.ByteBlock
	if p != nil {
		blocks = []memory.ByteBlock{
			rvImageBlock{rvCodeBase, p.codeBytes()},
			rvImageBlock{rvDataBase, append([]byte{}, p.data...)},
		}
	}
	byteMem, err := memory.NewBytes(blocks)
	if err != nil {
		return nil, err
	}
	emulF := func(c *deps.Code, ip model.Addr) (consoleui.Mode, error) {
		m := memory.NewOverlay(byteMem, memory.NewSparse())
		stat := &state.State{Regs: state.NewRegMap(), Mems: memory.MemMap{riscv.MemoryKey: m}}
		return emulate.New(c, ip, stat)
	}
	return consoleui.New(disassemble.New(code, emulF))
}

// uiExec feeds one command line (plus answers to prompts) to the UI exactly
// as one iteration of Run does. It returns the error of processCommand, the
// captured output and a panic description.
func uiExec(ui *consoleui.UI, line string, answers ...string) (err error, out string, crash string) {
	setInput(append([]string{line}, answers...)...)
	out = captureStdout(func() {
		crash = catch(func() { err = ui.VerifProcessCommand() })
	})
	return err, out, crash
}

// listingLine is one parsed line of the `alllines` output.
type listingLine struct {
	cursor bool
	num    int
	mark   string
	text   string
}

// parseListing parses lines of the format "%1s %Nd  | %3s | %s".
func parseListing(out string) ([]listingLine, string) {
	var ls []listingLine
	for _, raw := range strings.Split(out, "\n") {
		if !strings.Contains(raw, " | ") {
			continue
		}
		parts := strings.SplitN(raw, " | ", 3)
		if len(parts) < 3 {
			// text may be empty: "x  N  | mrk | "
			if len(parts) == 2 && strings.HasSuffix(raw, " | ") {
				parts = append(parts, "")
			} else if len(parts) == 2 {
				parts = append(parts, "")
				parts[1] = strings.TrimSuffix(parts[1], " |")
			} else {
				return nil, "cannot parse listing line " + raw
			}
		}
		var l listingLine
		head := parts[0]
		l.cursor = strings.HasPrefix(head, ">")
		if _, err := fmt.Sscanf(strings.TrimSpace(strings.TrimPrefix(head, ">")), "%d", &l.num); err != nil {
			return nil, "cannot parse line number in " + raw
		}
		l.mark = strings.TrimSpace(parts[1])
		l.text = parts[2]
		ls = append(ls, l)
	}
	return ls, ""
}

// listing obtains the current listing through the `alllines` command.
func listing(ui *consoleui.UI) ([]listingLine, string) {
	err, out, crash := uiExec(ui, "alllines")
	if crash != "" {
		return nil, "alllines crashed: " + crash
	}
	if err != nil {
		return nil, "alllines failed: " + err.Error()
	}
	return parseListing(out)
}

func cursorOf(ls []listingLine) int {
	for i, l := range ls {
		if l.cursor {
			return i
		}
	}
	return -1
}

// renderCode is the harness' own rendering of a code model.
func renderCode(code *deps.Code) []string {
	var out []string
	for i, b := range code.Blocks() {
		if i != 0 {
			out = append(out, "")
		}
		out = append(out, fmt.Sprintf("Block %d: 0x%x", i+1, uint64(b.Begin())))
		for _, in := range b.Instructions() {
			var hx []string
			for _, by := range in.Bytes() {
				hx = append(hx, fmt.Sprintf("%02X", by))
			}
			out = append(out, fmt.Sprintf("     %-24s | %s", in.String(), strings.Join(hx, " ")))
		}
	}
	return append(out, "")
}
