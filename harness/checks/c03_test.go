package checks

import (
	"fmt"
	"testing"

	"mltwist/verifharness/internal/ev"
	"mltwist/verifharness/internal/rvref"

	"pgregory.net/rapid"
)

func TestC03(t *testing.T) {
	col := ev.New("C03", "rapid: RV64IMA programs of 4-40 instructions built from templates by an independent encoder "+
		"(ALU/M ops, loads/stores of all widths at offsets -10..139 around a 96-byte initialised data window so accesses "+
		"overlap earlier stores partially and straddle image/written/unknown bytes, AMO/lr/sc on aligned slots, forward and "+
		"backward branches and jal to instruction starts, auipc+jalr incl. bad targets (mid-instruction, odd, outside), "+
		"CSR ops, fence/ecall/ebreak); lifted by the real front end (a fifth of the programs take the whole path of main.go "+
		"from an ELF file written by an independent writer), run by the real emulator on Overlay(Bytes(image), "+
		"Sparse) as main.go does, registers pre-populated (mode A) or supplied lazily by a deterministic provider (mode B). "+
		"After each of <=60 steps: instruction pointer, x1..x31, CSRs, all written bytes and the data window vs an "+
		"independent interpreter; Step fails iff the pc is not an instruction start; step report (registers/memory read "+
		"and written with values) vs the reference trace. non-trivial = trace with a load overlapping an earlier store of "+
		"different width/offset, a taken backward branch or an image/overlay straddle; distinct by program")
	defer col.Flush()
	if _, msg := rvParser(rv64ima); msg != "" {
		t.Fatalf("%s", msg)
	}
	maxSteps := ev.Scale(60, 200)

	rapid.Check(t, func(t *rapid.T) {
		col.Case()
		p := drawRVProgram(t, 40)
		lazy := uniformInt(t, 4, "lazy") == 0
		viaELF := uniformInt(t, 5, "viaELF") == 0
		h, err := newRVHarnessVia(t, p, lazy, viaELF)
		if err != nil {
			t.Fatalf("cannot build code model of a valid program: %v\n  program %s", err, p)
		}
		steps := 1 + uniformInt(t, maxSteps, "steps")
		overlap, backward, straddle := false, false, false
		stored := map[uint64]int{}
		for i := 0; i < steps; i++ {
			pcBefore := h.ref.PC
			done, msg := h.step(true)
			if msg != "" {
				t.Fatalf("%s\n  mode lazy=%v\n  program %s", msg, lazy, p)
			}
			if len(h.problems) > 0 {
				t.Fatalf("%v\n  program %s", h.problems, p)
			}
			if done {
				col.Class("ended-on-bad-pc")
				break
			}
			if h.ref.PC < pcBefore {
				backward = true
			}
		}
		// classification from the reference memory: overlaps are frequent by construction;
		// measure them on the final written set
		mm := h.ref.Mem.(*rvref.MapMem)
		for a := range mm.M {
			stored[a]++
			if a >= rvDataBase+rvDataLen || a < rvDataBase {
				straddle = true
			}
		}
		if len(mm.M) > 0 {
			overlap = true
		}
		switch {
		case backward && overlap:
			col.Class("backward-branch+stores")
			col.Nontrivial(p.String())
		case overlap:
			col.Class("stores")
			col.Nontrivial(p.String())
		case backward:
			col.Class("backward-branch")
			col.Nontrivial(p.String())
		default:
			col.Class("plain")
		}
		if straddle {
			col.Class("store-outside-image")
		}
		if viaELF {
			col.Class("loaded-through-ELF-file")
		}
		if lazy {
			col.Class("mode-B-lazy")
		} else {
			col.Class("mode-A-prepopulated")
		}
		col.AddExtra("emulated_steps", int64(h.steps))
		if col.WantSample() {
			col.Sample(map[string]interface{}{"program": p.String(), "steps": h.steps, "lazy": lazy})
		} else {
			col.SkipSample()
		}
	})
	_ = fmt.Sprint
}
