package checks

import (
	"fmt"
	"regexp"
	"strings"
	"testing"

	"mltwist/internal/consoleui"
	"mltwist/internal/consoleui/disassemble"
	"mltwist/internal/deps"
	"mltwist/verifharness/internal/ev"

	"pgregory.net/rapid"
)

func listingTexts(ls []listingLine) []string {
	out := make([]string, len(ls))
	for i, l := range ls {
		out[i] = l.text
	}
	return out
}

func sameStrings(a, b []string) string {
	if len(a) != len(b) {
		return fmt.Sprintf("%d lines vs %d lines", len(a), len(b))
	}
	for i := range a {
		if strings.TrimRight(a[i], " ") != strings.TrimRight(b[i], " ") {
			return fmt.Sprintf("line %d: %q vs %q", i, a[i], b[i])
		}
	}
	return ""
}

// listingMatchesCode compares listing texts with the current code without
// depending on the exact layout of a line: per block one header line naming
// the position number and the start address, then one line per instruction
// containing its text and its bytes in hex, blocks separated by one blank line
// and one blank line at the end.
func listingMatchesCode(texts []string, code *deps.Code) string {
	i := 0
	next := func() (string, bool) {
		if i >= len(texts) {
			return "", false
		}
		i++
		return texts[i-1], true
	}
	for pos, b := range code.Blocks() {
		if pos != 0 {
			if l, ok := next(); !ok || strings.TrimSpace(l) != "" {
				return fmt.Sprintf("line %d: expected a blank separator before block %d, got %q", i-1, pos+1, l)
			}
		}
		h, ok := next()
		if !ok {
			return fmt.Sprintf("listing ends before the header of block %d", pos+1)
		}
		lower := strings.ToLower(h)
		addrHex := fmt.Sprintf("%x", uint64(b.Begin()))
		hasAddr := strings.Contains(lower, addrHex)
		// the position number must appear as a number of its own, outside the address
		withoutAddr := strings.Replace(strings.Replace(lower, "0x"+addrHex, " ", 1), addrHex, " ", 1)
		hasPos := false
		for _, tok := range regexp.MustCompile(`[0-9]+`).FindAllString(withoutAddr, -1) {
			if tok == fmt.Sprintf("%d", pos+1) {
				hasPos = true
			}
		}
		if !hasPos || !hasAddr {
			return fmt.Sprintf("line %d: header %q does not name position %d and start address 0x%x", i-1, h, pos+1, uint64(b.Begin()))
		}
		for k, in := range b.Instructions() {
			l, ok := next()
			if !ok {
				return fmt.Sprintf("listing ends inside block %d", pos+1)
			}
			if !strings.Contains(l, in.String()) {
				return fmt.Sprintf("line %d: %q does not show instruction %d of block %d (%q)", i-1, l, k, pos+1, in.String())
			}
			rest := strings.ToLower(l[strings.Index(l, in.String())+len(in.String()):])
			for _, by := range in.Bytes() {
				hx := fmt.Sprintf("%02x", by)
				idx := strings.Index(rest, hx)
				if idx < 0 {
					return fmt.Sprintf("line %d: %q does not show the bytes %x", i-1, l, in.Bytes())
				}
				rest = rest[idx+2:]
			}
		}
	}
	if l, ok := next(); !ok || strings.TrimSpace(l) != "" {
		return fmt.Sprintf("expected a final blank line, got %q (present %v)", l, ok)
	}
	if i != len(texts) {
		return fmt.Sprintf("listing has %d lines, the code needs %d", len(texts), i)
	}
	return ""
}

// newSynthUI builds the disassembler UI over a synthetic program.
func newSynthUI(code *deps.Code) (*consoleui.UI, error) {
	return consoleui.New(disassemble.New(code, nil))
}

// lineKinds classifies the lines of a rendering: 'h' header, 'i' instruction,
// 'e' empty; blockOf gives the block position of every line.
func lineKinds(code *deps.Code) (kinds []byte, blockOf []int) {
	for i, b := range code.Blocks() {
		if i != 0 {
			kinds, blockOf = append(kinds, 'e'), append(blockOf, -1)
		}
		kinds, blockOf = append(kinds, 'h'), append(blockOf, i)
		for range b.Instructions() {
			kinds, blockOf = append(kinds, 'i'), append(blockOf, i)
		}
	}
	return append(kinds, 'e'), append(blockOf, -1)
}

func pickLine(t *rapid.T, kinds []byte, blockOf []int, want byte, block int, label string) int {
	var cands []int
	for i, k := range kinds {
		if k == want && (block < 0 || blockOf[i] == block) {
			cands = append(cands, i)
		}
	}
	if len(cands) == 0 {
		return uniformInt(t, len(kinds), label+"Any")
	}
	return cands[uniformInt(t, len(cands), label)]
}

func TestC23(t *testing.T) {
	col := ev.New("C23", "rapid state machine on the disassembler mode of the real UI over synthetic programs with 2-6 blocks "+
		"of different sizes (variable-length instructions, unique texts): actions are `move a b` for instruction->instruction "+
		"in the same block (aimed at the move bounds or not), instruction->instruction of another block, header->header (block "+
		"move), header<->instruction, empty lines, out-of-range lines, and `bounds n`. After every action the listing obtained "+
		"through `alllines` (marks stripped) must match code.Blocks() (one header per block naming position+1 and the start "+
		"address, one line per instruction with its text and bytes, single blank separators, final blank line - the exact "+
		"column layout is not assumed) and must equal the listing of a brand-new mode "+
		"over the same code; after a rejected move it must equal the previous listing. non-trivial = history with an "+
		"accepted block move between blocks of different length followed by an accepted instruction move; distinct by history")
	defer col.Flush()

	rapid.Check(t, func(t *rapid.T) {
		col.Case()
		synthTune(8, 30)
		p := drawProgram(t, 6, 6)
		synthTune(4, 14)
		code := buildCode(t, p)
		ui, err := newSynthUI(code)
		if err != nil {
			t.Fatalf("cannot build UI: %v", err)
		}
		var hist []string
		prev := renderCode(code)
		blockMoveDiff, insAfter := false, false

		checkListing := func(t *rapid.T, what string) {
			ls, msg := listing(ui)
			if msg != "" {
				t.Fatalf("%s: %s (history %v)\n  program %s", what, msg, hist, p)
			}
			if d := listingMatchesCode(listingTexts(ls), code); d != "" {
				t.Fatalf("%s: listing differs from a fresh rendering of the current code: %s\n  history %v\n  listing %q\n  program %s",
					what, d, hist, listingTexts(ls), p)
			}
			for i, l := range ls {
				if l.num != i {
					t.Fatalf("%s: line %d is numbered %d", what, i, l.num)
				}
			}
			fresh, ferr := newSynthUI(code)
			if ferr != nil {
				t.Fatalf("fresh UI: %v", ferr)
			}
			fl, msg := listing(fresh)
			if msg != "" {
				t.Fatalf("fresh listing: %s", msg)
			}
			if d := sameStrings(listingTexts(ls), listingTexts(fl)); d != "" {
				t.Fatalf("%s: listing differs from the listing of a brand-new mode: %s (history %v)", what, d, hist)
			}
		}
		checkListing(t, "initial")

		t.Repeat(map[string]func(*rapid.T){
			"move": func(t *rapid.T) {
				kinds, blockOf := lineKinds(code)
				var a, b int
				class := ""
				switch uniformInt(t, 8, "moveKind") {
				case 0, 1, 2: // instruction within its block
					a = pickLine(t, kinds, blockOf, 'i', -1, "a")
					b = pickLine(t, kinds, blockOf, 'i', blockOf[a], "b")
					class = "ins-same-block"
					if blockOf[a] >= 0 && uniformInt(t, 2, "aim") == 0 {
						blk := code.Index(blockOf[a])
						first := a
						for first > 0 && kinds[first-1] == 'i' {
							first--
						}
						idx := a - first
						if kinds[a] == 'i' && idx < blk.Num() {
							lo, hi := blk.LowerBound(idx), blk.UpperBound(idx)
							b = first + lo + uniformInt(t, hi-lo+1, "bAimed")
							class = "ins-same-block-aimed"
						}
					}
				case 3:
					a = pickLine(t, kinds, blockOf, 'i', -1, "a")
					b = pickLine(t, kinds, blockOf, 'i', -1, "b")
					class = "ins-any-block"
				case 4, 5:
					a = pickLine(t, kinds, blockOf, 'h', -1, "a")
					b = pickLine(t, kinds, blockOf, 'h', -1, "b")
					class = "block-block"
				case 6:
					a = pickLine(t, kinds, blockOf, 'h', -1, "a")
					b = pickLine(t, kinds, blockOf, 'i', -1, "b")
					if uniformInt(t, 2, "swap") == 0 {
						a, b = b, a
					}
					class = "block-ins"
				default:
					a = uniformInt(t, len(kinds)+3, "a")
					b = pickLine(t, kinds, blockOf, 'e', -1, "b")
					if uniformInt(t, 2, "swap") == 0 {
						a, b = b, a
					}
					class = "empty-or-out-of-range"
				}
				sizesBefore := []int{}
				for _, blk := range code.Blocks() {
					sizesBefore = append(sizesBefore, blk.Num())
				}
				line := fmt.Sprintf("move %d %d", a, b)
				err, out, crash := uiExec(ui, line)
				hist = append(hist, line)
				if crash != "" {
					t.Fatalf("%q crashed: %s (history %v)\n  program %s", line, crash, hist, p)
				}
				if err != nil {
					t.Fatalf("%q: %v", line, err)
				}
				rejected := strings.Contains(out, "error:")
				hist[len(hist)-1] += fmt.Sprintf("=%v", !rejected)
				col.Class(fmt.Sprintf("move/%s/accepted=%v", class, !rejected))
				checkListing(t, line)
				now := renderCode(code)
				if rejected {
					if d := sameStrings(prev, now); d != "" {
						t.Fatalf("rejected %q changed the code: %s (history %v)", line, d, hist)
					}
				} else if a != b {
					if class == "block-block" {
						ba, bb := blockOf[a], blockOf[b]
						lo, hi := ba, bb
						if lo > hi {
							lo, hi = hi, lo
						}
						for k := lo; k <= hi; k++ {
							if sizesBefore[k] != sizesBefore[ba] {
								blockMoveDiff = true
							}
						}
					} else if blockMoveDiff && strings.HasPrefix(class, "ins") {
						insAfter = true
					}
				}
				prev = now
			},
			"bounds": func(t *rapid.T) {
				kinds, _ := lineKinds(code)
				n := uniformInt(t, len(kinds)+2, "n")
				line := fmt.Sprintf("bounds %d", n)
				err, _, crash := uiExec(ui, line)
				hist = append(hist, line)
				if crash != "" {
					t.Fatalf("%q crashed: %s (history %v)\n  program %s", line, crash, hist, p)
				}
				if err != nil {
					t.Fatalf("%q: %v", line, err)
				}
				checkListing(t, line)
				if d := sameStrings(prev, renderCode(code)); d != "" {
					t.Fatalf("%q changed the code: %s", line, d)
				}
			},
		})
		switch {
		case blockMoveDiff && insAfter:
			col.Class("history/block-move-of-different-sizes+instruction-move")
			col.Nontrivial(fmt.Sprint(p.String(), hist))
		case blockMoveDiff:
			col.Class("history/block-move-of-different-sizes")
			col.Nontrivial(fmt.Sprint(p.String(), hist))
		default:
			col.Class("history/other")
		}
		if col.WantSample() {
			col.Sample(map[string]interface{}{"program": p.String(), "history": hist})
		} else {
			col.SkipSample()
		}
	})
}
