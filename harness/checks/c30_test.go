package checks

import (
	"fmt"
	"math/big"
	"strings"
	"testing"

	"mltwist/internal/consoleui"
	"mltwist/internal/consoleui/disassemble"
	"mltwist/internal/consoleui/emulate"
	"mltwist/internal/deps"
	"mltwist/internal/riscv"
	"mltwist/internal/state"
	"mltwist/internal/state/memory"
	"mltwist/pkg/expr"
	"mltwist/pkg/model"
	"mltwist/verifharness/internal/ev"
	"mltwist/verifharness/internal/irsem"

	"pgregory.net/rapid"
)

// drawDigits draws a digit string for base, possibly with one invalid digit.
func drawDigits(t *rapid.T, base int, maxLen int, label string) (string, bool) {
	n := uniformInt(t, maxLen+1, label+"Len")
	digits := "0123456789abcdefABCDEF"
	var sb strings.Builder
	valid := n > 0
	for i := 0; i < n; i++ {
		var c byte
		switch base {
		case 2:
			c = digits[uniformInt(t, 2, label+"d")]
		case 8:
			c = digits[uniformInt(t, 8, label+"d")]
		case 10:
			c = digits[uniformInt(t, 10, label+"d")]
		default:
			c = digits[uniformInt(t, 22, label+"d")]
		}
		sb.WriteByte(c)
	}
	s := sb.String()
	if n > 0 && uniformInt(t, 8, label+"corrupt") == 0 {
		bad := []string{"g", "_", "-", " ", "z", "8", "9", "2", ".", "x"}[uniformInt(t, 10, label+"bad")]
		pos := uniformInt(t, n, label+"badPos")
		s = s[:pos] + bad + s[pos+1:]
		// recompute validity
		valid = true
		for i := 0; i < len(s); i++ {
			if digitVal(s[i]) >= base {
				valid = false
			}
		}
	}
	return s, valid
}

func digitVal(c byte) int {
	switch {
	case c >= '0' && c <= '9':
		return int(c - '0')
	case c >= 'a' && c <= 'f':
		return int(c-'a') + 10
	case c >= 'A' && c <= 'F':
		return int(c-'A') + 10
	}
	return 99
}

var hostileTokens = []string{"0", "00", "0x", "0X", "0b", "0B", "0o", "x", "b", "-", "_", "1_0", "0x_1", "７", "١", "a", "f", "9", "1",
	"0x10", "0b10", "0B10", "010", "08", "0o17", "-1", "+1", "1e3", "0x1p4", "18446744073709551615", "18446744073709551616",
	"0xffffffffffffffff", "0x10000000000000000", "01777777777777777777777", "02000000000000000000000", "''", "0b" + strings.Repeat("1", 64),
	"0b1" + strings.Repeat("0", 64)}

// refParseAddr is the reference grammar of the address argument.
func refParseAddr(s string) (uint64, bool) {
	base := 10
	digits := s
	switch {
	case strings.HasPrefix(s, "0x"), strings.HasPrefix(s, "0X"):
		base, digits = 16, s[2:]
	case strings.HasPrefix(s, "0b"), strings.HasPrefix(s, "0B"):
		base, digits = 2, s[2:]
	case len(s) > 1 && s[0] == '0':
		base, digits = 8, s[1:]
	}
	if digits == "" {
		return 0, false
	}
	v := new(big.Int)
	for i := 0; i < len(digits); i++ {
		d := digitVal(digits[i])
		if d >= base {
			return 0, false
		}
		v.Mul(v, big.NewInt(int64(base)))
		v.Add(v, big.NewInt(int64(d)))
	}
	if v.BitLen() > 64 {
		return 0, false
	}
	return v.Uint64(), true
}

// refReadValue is the reference of the emulator value prompt: Go integer
// literal syntax (base prefixes 0x 0X 0b 0B 0o 0O, leading 0 = octal), optional
// minus sign, no underscores.
func refReadValue(s string) (*big.Int, bool) {
	neg := false
	if strings.HasPrefix(s, "-") {
		neg, s = true, s[1:]
	}
	base := 10
	digits := s
	switch {
	case strings.HasPrefix(s, "0x"), strings.HasPrefix(s, "0X"):
		base, digits = 16, s[2:]
	case strings.HasPrefix(s, "0b"), strings.HasPrefix(s, "0B"):
		base, digits = 2, s[2:]
	case strings.HasPrefix(s, "0o"), strings.HasPrefix(s, "0O"):
		base, digits = 8, s[2:]
	case len(s) > 1 && s[0] == '0':
		base, digits = 8, s[1:]
	}
	if digits == "" {
		return nil, false
	}
	v := new(big.Int)
	for i := 0; i < len(digits); i++ {
		d := digitVal(digits[i])
		if d >= base {
			return nil, false
		}
		v.Mul(v, big.NewInt(int64(base)))
		v.Add(v, big.NewInt(int64(d)))
	}
	if neg {
		v.Neg(v)
	}
	return v, true
}

func drawNumberString(t *rapid.T, forValue bool) string {
	if !forValue && uniformInt(t, 5, "mapped") == 0 {
		// an address inside (or just outside) the program image, in a random base
		a := uint64(rvDataBase) - 4 + uint64(uniformInt(t, rvDataLen+8, "mappedOff"))
		if uniformInt(t, 4, "inCode") == 0 {
			a = uint64(rvCodeBase) + uint64(uniformInt(t, 16, "codeOff"))
		}
		switch uniformInt(t, 6, "mappedBase") {
		case 0:
			return fmt.Sprintf("0x%x", a)
		case 1:
			return fmt.Sprintf("0X%X", a)
		case 2:
			return fmt.Sprintf("0b%b", a)
		case 3:
			return fmt.Sprintf("0B%b", a)
		case 4:
			return fmt.Sprintf("0%o", a)
		}
		return fmt.Sprintf("%d", a)
	}
	if uniformInt(t, 4, "hostile") == 0 {
		return hostileTokens[uniformInt(t, len(hostileTokens), "hostileIdx")]
	}
	var sb strings.Builder
	if forValue && uniformInt(t, 3, "neg") == 0 {
		sb.WriteString("-")
	}
	prefixes := []string{"", "", "0x", "0X", "0b", "0B", "0"}
	if forValue {
		prefixes = append(prefixes, "0o", "0O")
	}
	p := prefixes[uniformInt(t, len(prefixes), "prefix")]
	base := map[string]int{"": 10, "0x": 16, "0X": 16, "0b": 2, "0B": 2, "0": 8, "0o": 8, "0O": 8}[p]
	maxLen := map[int]int{2: 70, 8: 26, 10: 24, 16: 20}[base]
	if forValue {
		maxLen = maxLen * 3 / 2
	}
	d, _ := drawDigits(t, base, maxLen, "digits")
	sb.WriteString(p + d)
	return sb.String()
}

func TestC30(t *testing.T) {
	runWitnesses(t, "C30")
	col := ev.New("C30", "rapid: argument strings from a grammar (optional sign, prefix in {none,0x,0X,0b,0B,0o,0O,0}, digit "+
		"runs valid or with one invalid character, lengths 0-70 so values exceed 2^64 / 2^(8w)) plus hostile tokens (\"0\", "+
		"\"0x\", \"0b\", one-character strings, underscores, non-ASCII digits, exponent forms, 2^64-1 and 2^64 in every base). "+
		"(1) typed as the argument of the memory view's address command (reached through the real UI: entrypoint, emulate, "+
		"memory): outcome compared with a reference grammar dec|0x hex|0b bin|0-octal < 2^64 - either a parse error, or "+
		"the echoed address / selected row equals the reference value; (2) typed at the emulator's register prompt "+
		"(regmod) for registers of width 1..16: accepted iff the reference grammar accepts, stored constant = value mod "+
		"2^(8w). non-trivial = accepted number with a prefix or a value exceeding the width, or a rejected hostile token; "+
		"distinct by (string, width)")
	defer col.Flush()

	// a tiny program: the memory view shows its image
	p := &rvProgram{words: []uint32{0x00000013, 0x00000013, 0x0000006f}, text: []string{"nop", "nop", "jal x0,0"},
		data: make([]byte, rvDataLen), entry: rvCodeBase}
	for i := range p.data {
		p.data[i] = byte(i)
	}
	widths := []expr.Width{1, 2, 3, 4, 7, 8, 9, 16}
	var stat *state.State
	build := func() (*consoleui.UI, string) {
		code, err := buildRVCode(p)
		if err != nil {
			return nil, err.Error()
		}
		byteMem, _ := memory.NewBytes([]memory.ByteBlock{rvImageBlock{rvCodeBase, p.codeBytes()}, rvImageBlock{rvDataBase, append([]byte{}, p.data...)}})
		emulF := func(c *deps.Code, ip model.Addr) (consoleui.Mode, error) {
			stat = &state.State{Regs: state.NewRegMap(), Mems: memory.MemMap{riscv.MemoryKey: memory.NewOverlay(byteMem, memory.NewSparse())}}
			for _, w := range widths {
				stat.Regs.Store(expr.Key(fmt.Sprintf("w%d", w)), expr.NewConst(nil, w), w)
			}
			return emulate.New(c, ip, stat)
		}
		ui, err := consoleui.New(disassemble.New(code, emulF))
		if err != nil {
			return nil, err.Error()
		}
		for _, cmd := range []string{"entrypoint", "emulate"} {
			if err, _, crash := uiExec(ui, cmd); err != nil || crash != "" {
				return nil, fmt.Sprintf("%s: %v %s", cmd, err, crash)
			}
		}
		return ui, ""
	}

	rapid.Check(t, func(t *rapid.T) {
		ui, msg := build()
		if msg != "" {
			t.Fatalf("cannot reach the emulator mode: %s", msg)
		}
		// (2) value prompt
		for rep := 0; rep < 6; rep++ {
			col.Case()
			s := drawNumberString(t, true)
			if strings.HasPrefix(s, "+") {
				continue // a plus sign is not covered by the statement
			}
			w := widths[uniformInt(t, len(widths), "width")]
			key := fmt.Sprintf("w%d", w)
			err, out, crash := uiExec(ui, "regmod "+key, s, "JUNK", "0x5a")
			if crash != "" {
				t.Fatalf("value %q typed at the prompt of a %d byte register crashed: %s", s, w, crash)
			}
			if err != nil {
				t.Fatalf("regmod %s failed: %v", key, err)
			}
			accepted := uiInput.consumed == 2
			want, ok := refReadValue(s)
			if col.WantSample() {
				col.Sample(map[string]interface{}{"prompt_input": s, "register_width": int(w), "accepted": accepted})
			} else {
				col.SkipSample()
			}
			if accepted != ok {
				t.Fatalf("value %q typed for a %d byte register: accepted=%v, reference grammar says %v (output %q)", s, w, accepted, ok, out)
			}
			e, _ := stat.Regs.Load(expr.Key(key), w)
			c, isC := e.(expr.Const)
			if !isC || c.Width() != w {
				t.Fatalf("register %s holds %s after the prompt", key, irsem.String(e))
			}
			if ok {
				wantV := new(big.Int).Mod(want, irsem.Pow2(w))
				if constVal(c).Cmp(wantV) != 0 {
					t.Fatalf("value %q typed for a %d byte register is stored as %x, want %x", s, w, constVal(c), wantV)
				}
				col.Class("value/accepted")
				if want.BitLen() > int(w)*8 || want.Sign() < 0 || strings.HasPrefix(strings.TrimPrefix(s, "-"), "0") {
					col.Nontrivial("v/" + s + "/" + key)
				}
			} else {
				if constVal(c).Int64() != 0x5a {
					t.Fatalf("after rejecting %q the fallback answer was not stored: %x", s, constVal(c))
				}
				col.Class("value/rejected")
				col.Nontrivial("v/" + s + "/" + key)
			}
		}

		// (1) address argument of the memory view
		if err, _, crash := uiExec(ui, "memory memory"); err != nil || crash != "" {
			t.Fatalf("memory memory: %v %s", err, crash)
		}
		for rep := 0; rep < 6; rep++ {
			col.Case()
			s := drawNumberString(t, false)
			if strings.ContainsAny(s, " ") || s == "" {
				continue // would change the number of arguments
			}
			err, out, crash := uiExec(ui, "address "+s)
			if crash != "" {
				t.Fatalf("address %q crashed the UI: %s", s, crash)
			}
			if err != nil {
				t.Fatalf("address %q: processCommand failed: %v", s, err)
			}
			want, ok := refParseAddr(s)
			parseErr := strings.Contains(out, "cannot parse argument")
			if col.WantSample() {
				col.Sample(map[string]interface{}{"address_argument": s, "parse_error": parseErr})
			} else {
				col.SkipSample()
			}
			switch {
			case !ok:
				if !parseErr {
					t.Fatalf("address %q is not a valid address but was not answered with a parse error (output %q)", s, out)
				}
				col.Class("addr/rejected")
				col.Nontrivial("a/" + s)
			case parseErr:
				t.Fatalf("address %q (= 0x%x) was rejected: %q", s, want, out)
			case strings.Contains(out, "no line with address"):
				if !strings.Contains(out, fmt.Sprintf("no line with address 0x%x found", want)) {
					t.Fatalf("address %q denotes 0x%x but the UI understood another address: %q", s, want, out)
				}
				col.Class("addr/accepted-unmapped")
				if s[0] == '0' && len(s) > 1 {
					col.Nontrivial("a/" + s)
				}
			case strings.Contains(out, "error:"):
				t.Fatalf("address %q: unexpected error %q", s, out)
			default:
				// selected a row: the cursor row must contain the address
				view := captureStdout(func() { ui.VerifModeView().Print(40) })
				found := false
				for _, ln := range strings.Split(view, "\n") {
					if strings.HasPrefix(ln, ">") {
						var n int
						var lo, hi uint64
						if _, err := fmt.Sscanf(strings.TrimPrefix(ln, ">"), "%d | 0x%x - 0x%x", &n, &lo, &hi); err == nil && want >= lo && want < hi {
							found = true
						}
					}
				}
				if !found {
					t.Fatalf("address %q (= 0x%x) was accepted but the cursor row does not contain it:\n%s", s, want, view)
				}
				col.Class("addr/accepted-row-selected")
				col.Nontrivial("a/" + s)
			}
		}

	})
}
