package checks

import (
	"fmt"
	"sort"
	"strings"
	"testing"

	"mltwist/internal/consoleui"
	"mltwist/internal/consoleui/disassemble"
	"mltwist/internal/consoleui/emulate"
	"mltwist/internal/deps"
	"mltwist/internal/riscv"
	"mltwist/internal/state"
	"mltwist/internal/state/memory"
	"mltwist/pkg/expr"
	"mltwist/pkg/model"
	"mltwist/verifharness/internal/ev"
	"mltwist/verifharness/internal/irsem"

	"pgregory.net/rapid"
)

// memRow is a parsed row of the memory view.
type memRow struct {
	cursor   bool
	num      int
	ellipsis bool
	lo, hi   uint64
	cells    []string
}

func parseMemView(out string) ([]memRow, string) {
	var rows []memRow
	for _, ln := range strings.Split(strings.TrimRight(out, "\n"), "\n") {
		if strings.TrimSpace(ln) == "" || strings.TrimSpace(ln) == "NO MEMORY TO SHOW" {
			continue
		}
		parts := strings.Split(ln, " | ")
		if len(parts) < 2 {
			return nil, "cannot parse row " + ln
		}
		var r memRow
		r.cursor = strings.HasPrefix(parts[0], ">")
		if _, err := fmt.Sscanf(strings.TrimSpace(strings.TrimPrefix(parts[0], ">")), "%d", &r.num); err != nil {
			return nil, "cannot parse row number of " + ln
		}
		if strings.TrimSpace(parts[1]) == "..." && len(parts) == 2 {
			r.ellipsis = true
			rows = append(rows, r)
			continue
		}
		if len(parts) != 3 {
			return nil, "cannot parse row " + ln
		}
		if _, err := fmt.Sscanf(parts[1], "0x%x - 0x%x", &r.lo, &r.hi); err != nil {
			return nil, "cannot parse address range of " + ln
		}
		r.cells = strings.Fields(parts[2])
		rows = append(rows, r)
	}
	return rows, ""
}

// c32Memory draws a memory holding constant bytes and returns it with the
// byte model.
func c32Memory(t *rapid.T) (memory.Memory, map[uint64]byte, string) {
	base := uint64(0x7ff0)
	switch uniformInt(t, 5, "where") {
	case 0:
		base = 0
	case 1:
		base = 1<<64 - 192
	case 2:
		base = 0x10000
	}
	model := map[uint64]byte{}
	type st struct {
		addr uint64
		bs   []byte
	}
	var stores []st
	n := uniformInt(t, 9, "nStores")
	for i := 0; i < n; i++ {
		w := 1 + uniformInt(t, 24, "w")
		if uniformInt(t, 6, "long") == 0 {
			w = 25 + uniformInt(t, 100, "wLong") // blocks spanning several rows
		}
		off := uniformInt(t, 192-w, "off") // ends at most one byte before base+192
		switch uniformInt(t, 4, "align") {
		case 0:
			off = off / 16 * 16 // starts on a row boundary
		case 1:
			off = off/16*16 + 16 - w // ends on a row boundary
			if off < 0 {
				off = 0
			}
		}
		if off+w > 191 {
			off = 191 - w // the byte at 2^64-1 cannot be addressed by an exclusive range end
		}
		bs := irsem.GenBytes(t, w, "bytes")
		stores = append(stores, st{base + uint64(off), bs})
	}
	desc := fmt.Sprintf("base %x stores %v", base, stores)
	apply := func(m memory.Memory, ss []st) {
		for _, s := range ss {
			m.Store(model2addr(s.addr), expr.NewConst(s.bs, expr.Width(len(s.bs))), expr.Width(len(s.bs)))
			for i, b := range s.bs {
				model[s.addr+uint64(i)] = b
			}
		}
	}
	switch uniformInt(t, 3, "memKind") {
	case 0:
		m := memory.NewSparse()
		apply(m, stores)
		return m, model, "sparse " + desc
	case 1:
		m, _ := memory.NewBytes(nil)
		apply(m, stores)
		return m, model, "bytes " + desc
	default:
		k := uniformInt(t, len(stores)+1, "split")
		b, _ := memory.NewBytes(nil)
		apply(b, stores[:k])
		o := memory.NewOverlay(b, memory.NewSparse())
		apply(o, stores[k:])
		return o, model, "overlay " + desc
	}
}

func model2addr(a uint64) model.Addr { return model.Addr(a) }

func TestC32(t *testing.T) {
	runWitnesses(t, "C32")
	col := ev.New("C32", "rapid: memories (Sparse, Bytes, Overlay) holding 0-8 constant stores of 1-24 (a sixth: 25-124) bytes in a 191-byte "+
		"region placed at 0, 0x7ff0, 0x10000 and 2^64-192 (stores starting/ending on 16-byte row boundaries, two blocks in "+
		"one row, adjacent rows, far rows); the memory view is reached through the real UI (entrypoint, emulate, memory "+
		"<key>) and rendered; rows are parsed back. Oracle from the byte model: data rows = exactly the 16-byte aligned "+
		"windows containing a stored byte, ascending, each once; every cell shows the stored byte (%02X) or the absent "+
		"mark; an ellipsis row sits between two data rows iff their windows are not consecutive; then `address a` (a third of the time after a goto to an arbitrary row, ellipsis rows included) for "+
		"stored, absent-in-window and unmapped addresses must select the containing row or report an error leaving the "+
		"cursor unchanged. non-trivial = >=2 blocks sharing a row or >=3 data rows with a gap; distinct by memory description")
	defer col.Flush()

	p := &rvProgram{words: []uint32{0x00000013, 0x0000006f}, text: []string{"nop", "jal x0,0"}, data: make([]byte, rvDataLen), entry: rvCodeBase}

	rapid.Check(t, func(t *rapid.T) {
		col.Case()
		mem, byteModel, desc := c32Memory(t)
		code, err := buildRVCode(p)
		if err != nil {
			t.Fatalf("%v", err)
		}
		emulF := func(c *deps.Code, ip model.Addr) (consoleui.Mode, error) {
			stat := &state.State{Regs: state.NewRegMap(), Mems: memory.MemMap{riscv.MemoryKey: memory.NewSparse(), "k": mem}}
			return emulate.New(c, ip, stat)
		}
		ui, err := consoleui.New(disassemble.New(code, emulF))
		if err != nil {
			t.Fatalf("%v", err)
		}
		for _, cmd := range []string{"entrypoint", "emulate", "memory k"} {
			if err, out, crash := uiExec(ui, cmd); err != nil || crash != "" || strings.Contains(out, "error:") {
				t.Fatalf("%s: %v %s %q (%s)", cmd, err, crash, out, desc)
			}
		}
		render := func() []memRow {
			var crash string
			var perr error
			out := captureStdout(func() { crash = catch(func() { perr = ui.VerifModeView().Print(400) }) })
			if crash != "" || perr != nil {
				t.Fatalf("rendering the memory view: %s %v (%s)", crash, perr, desc)
			}
			rows, msg := parseMemView(out)
			if msg != "" {
				t.Fatalf("%s\n%s", msg, out)
			}
			return rows
		}
		rows := render()

		// expected windows
		winSet := map[uint64]bool{}
		for a := range byteModel {
			winSet[a&^15] = true
		}
		var wins []uint64
		for w := range winSet {
			wins = append(wins, w)
		}
		sort.Slice(wins, func(i, j int) bool { return wins[i] < wins[j] })

		if len(wins) == 0 {
			for _, r := range rows {
				if !r.ellipsis && len(r.cells) > 0 {
					t.Fatalf("empty memory shows a data row (%s)", desc)
				}
			}
			col.Class("empty-memory")
			return
		}
		var data []memRow
		for i, r := range rows {
			if r.num != i {
				t.Fatalf("row %d is numbered %d (%s)", i, r.num, desc)
			}
			if !r.ellipsis {
				data = append(data, r)
			}
		}
		if len(data) != len(wins) {
			t.Fatalf("memory view shows %d data rows, the stored bytes occupy %d aligned windows %x\n  rows %+v\n  %s", len(data), len(wins), wins, rows, desc)
		}
		di := 0
		for i, r := range rows {
			if r.ellipsis {
				continue
			}
			w := wins[di]
			if r.lo != w || r.hi != w+16 {
				t.Fatalf("data row %d shows window %x-%x, want %x-%x (%s)", di, r.lo, r.hi, w, w+16, desc)
			}
			if len(r.cells) != 16 {
				t.Fatalf("data row %d has %d cells (%s)", di, len(r.cells), desc)
			}
			for k, cell := range r.cells {
				want := ".."
				if b, ok := byteModel[w+uint64(k)]; ok {
					want = fmt.Sprintf("%02X", b)
				}
				if cell != want {
					t.Fatalf("row for window %x, byte %d shows %q, want %q\n  rows %+v\n  %s", w, k, cell, want, rows, desc)
				}
			}
			// separation from the previous data row
			if di > 0 {
				prevIsEllipsis := rows[i-1].ellipsis
				consecutive := wins[di-1]+16 == w
				if prevIsEllipsis == consecutive {
					t.Fatalf("windows %x and %x (consecutive=%v) separated by an ellipsis row=%v (%s)", wins[di-1], w, consecutive, prevIsEllipsis, desc)
				}
			}
			di++
		}
		for i := 1; i < len(rows); i++ {
			if rows[i].ellipsis && rows[i-1].ellipsis {
				t.Fatalf("two ellipsis rows in a row (%s)", desc)
			}
		}

		// address command
		cursorRow := func(rs []memRow) int {
			for i, r := range rs {
				if r.cursor {
					return i
				}
			}
			return -1
		}
		for k := 0; k < 4; k++ {
			var a uint64
			w := wins[uniformInt(t, len(wins), "awin")]
			switch uniformInt(t, 3, "aKind") {
			case 0:
				a = w + uint64(uniformInt(t, 16, "aoff"))
			case 1:
				a = w + 16 + uint64(uniformInt(t, 64, "abeyond"))
			default:
				a = w - 1 - uint64(uniformInt(t, 64, "abefore"))
			}
			if uniformInt(t, 3, "gotoFirst") == 0 {
				// put the cursor on an arbitrary row (data or ellipsis) first
				uiExec(ui, fmt.Sprintf("goto %d", uniformInt(t, len(render())+1, "gotoRow")))
			}
			before := cursorRow(render())
			_, out, crash := uiExec(ui, fmt.Sprintf("address 0x%x", a))
			if crash != "" {
				t.Fatalf("address 0x%x crashed: %s (%s)", a, crash, desc)
			}
			after := render()
			rejected := strings.Contains(out, "error:")
			_, stored := byteModel[a]
			inWindow := winSet[a&^15]
			switch {
			case stored && rejected:
				t.Fatalf("address 0x%x holds a stored byte but the command failed: %q (%s)", a, out, desc)
			case !inWindow && !rejected:
				t.Fatalf("address 0x%x is in no shown row but the command succeeded (%s)", a, desc)
			}
			cr := cursorRow(after)
			if rejected {
				if cr != before {
					t.Fatalf("rejected address command moved the cursor from row %d to %d (%s)", before, cr, desc)
				}
				col.Class("address/rejected")
			} else {
				if cr < 0 || after[cr].ellipsis || !(a >= after[cr].lo && a-after[cr].lo < 16) {
					t.Fatalf("address 0x%x selected row %d which does not contain it (%s)", a, cr, desc)
				}
				col.Class("address/selected")
			}
		}

		shared := false
		for _, w := range wins {
			runs, prev := 0, false
			for k := uint64(0); k < 16; k++ {
				_, cur := byteModel[w+k]
				if cur && !prev {
					runs++
				}
				prev = cur
			}
			if runs >= 2 {
				shared = true
			}
		}
		gap := false
		for i := 1; i < len(wins); i++ {
			if wins[i-1]+16 != wins[i] {
				gap = true
			}
		}
		switch {
		case shared:
			col.Class("blocks-sharing-a-row")
			col.Nontrivial(desc)
		case len(wins) >= 3 && gap:
			col.Class(">=3-rows-with-gap")
			col.Nontrivial(desc)
		default:
			col.Class("simple")
		}
		if col.WantSample() {
			col.Sample(desc)
		} else {
			col.SkipSample()
		}
	})
}
