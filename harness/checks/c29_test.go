package checks

import (
	"fmt"
	"strings"
	"testing"
	"time"

	"mltwist/internal/consoleui"
	"mltwist/verifharness/internal/ev"

	"pgregory.net/rapid"
)

func drawWord(t *rapid.T, maxLen int) string {
	n := 1 + uniformInt(t, maxLen, "wordLen")
	var sb strings.Builder
	for i := 0; i < n; i++ {
		sb.WriteByte(byte('!' + uniformInt(t, 94, "ch"))) // printable, not space
	}
	return sb.String()
}

func TestC29(t *testing.T) {
	col := ev.New("C29", "rapid: printable ASCII texts of 0-300 bytes built from words of length 1-40 (sometimes up to 120, "+
		"i.e. longer than a line) separated by runs of 1-4 spaces, no leading space, optional trailing spaces, no newline; "+
		"indentation 0-5 tabs (a sixth of the cases 6-25); every text wrapped twice, with two independently drawn widths; width such that width-8*indent >= 1 (boundary widths 1,2, word length +-1 preferred). "+
		"Validity oracle: terminates (30 s watchdog), every line = indent tabs + body with len(body) <= remaining width and no "+
		"leading space, non-space characters of all bodies concatenated = those of the input in order, a word is split only "+
		"when it is longer than the remaining width. non-trivial = text needing >=2 lines with a word longer than the "+
		"width or a space run at the split point; distinct by (text, indent, width)")
	defer col.Flush()

	rapid.Check(t, func(t *rapid.T) {
		for rep := 0; rep < 4; rep++ {
			col.Case()
			nWords := uniformInt(t, 14, "nWords")
			var sb strings.Builder
			maxWord := 12
			switch uniformInt(t, 4, "wordClass") {
			case 0:
				maxWord = 120
			case 1:
				maxWord = 40
			}
			for i := 0; i < nWords && sb.Len() < 300; i++ {
				if i > 0 {
					sb.WriteString(strings.Repeat(" ", 1+uniformInt(t, 4, "spaces")))
				}
				sb.WriteString(drawWord(t, maxWord))
			}
			if nWords > 0 && uniformInt(t, 4, "trailing") == 0 {
				sb.WriteString(strings.Repeat(" ", 1+uniformInt(t, 3, "trail")))
			}
			s := sb.String()
			indent := uniformInt(t, 6, "indent")
			if uniformInt(t, 6, "deepIndent") == 0 {
				indent = 6 + uniformInt(t, 20, "indentDeep")
			}
			chars := 1 + uniformInt(t, 90, "chars")
			switch uniformInt(t, 5, "charsClass") {
			case 0:
				chars = 1 + uniformInt(t, 3, "tiny")
			case 1:
				chars = 8 + uniformInt(t, 8, "small")
			}
			width := chars + 8*indent

			// every text is wrapped twice: the second time with the same indentation
			// but another width (a result must not depend on earlier calls)
			for pass := 0; pass < 2; pass++ {
				if pass == 1 {
					chars = 1 + uniformInt(t, 90, "chars2")
					if uniformInt(t, 3, "chars2Small") == 0 {
						chars = 1 + uniformInt(t, 12, "chars2s")
					}
					width = chars + 8*indent
					col.Case()
				}
				done := make(chan string, 1)
				var crash string
				go func() {
					var out string
					crash = catch(func() { out = consoleui.VerifFormat(s, indent, width) })
					done <- out
				}()
				var out string
				select {
				case out = <-done:
				case <-time.After(30 * time.Second):
					t.Fatalf("format(%q, %d, %d) did not terminate within 30 s", s, indent, width)
				}
				if crash != "" {
					t.Fatalf("format(%q, %d, %d): %s", s, indent, width, crash)
				}
				desc := fmt.Sprintf("format(%q, indent %d, width %d)", s, indent, width)

				if s == "" {
					if out != "" {
						t.Fatalf("%s of the empty text = %q", desc, out)
					}
					col.Class("empty")
					continue
				}
				if !strings.HasSuffix(out, "\n") {
					t.Fatalf("%s = %q does not end with a newline", desc, out)
				}
				lines := strings.Split(strings.TrimSuffix(out, "\n"), "\n")
				var joined strings.Builder
				pos := 0 // position in s of the next unconsumed non-space char
				nonSpace := func(x string) string { return strings.ReplaceAll(x, " ", "") }
				splitWordTooShort := false
				for li, ln := range lines {
					tabs := strings.Repeat("\t", indent)
					if !strings.HasPrefix(ln, tabs) {
						t.Fatalf("%s: line %d %q does not start with %d tabs", desc, li, ln, indent)
					}
					body := ln[len(tabs):]
					if strings.HasPrefix(body, "\t") {
						t.Fatalf("%s: line %d has more than %d tabs", desc, li, indent)
					}
					if len(body) > chars {
						t.Fatalf("%s: line %d body %q has %d characters, only %d fit", desc, li, body, len(body), chars)
					}
					if strings.HasPrefix(body, " ") {
						t.Fatalf("%s: line %d body %q starts with a space", desc, li, body)
					}
					// locate the body's non-space characters in s
					ns := nonSpace(body)
					joined.WriteString(ns)
					// advance pos over ns characters of s
					cnt := 0
					for pos < len(s) && cnt < len(ns) {
						if s[pos] != ' ' {
							cnt++
						}
						pos++
					}
					// a split inside a word: s[pos-1] and s[pos] both non-space
					if li < len(lines)-1 && pos > 0 && pos < len(s) && s[pos-1] != ' ' && s[pos] != ' ' {
						// find the word
						b, e := pos-1, pos
						for b > 0 && s[b-1] != ' ' {
							b--
						}
						for e < len(s) && s[e] != ' ' {
							e++
						}
						if e-b <= chars {
							splitWordTooShort = true
							t.Fatalf("%s: word %q of %d characters was split although %d characters fit on a line\n  output %q", desc, s[b:e], e-b, chars, out)
						}
					}
				}
				_ = splitWordTooShort
				if joined.String() != nonSpace(s) {
					t.Fatalf("%s loses or reorders characters:\n  output %q", desc, out)
				}
				longWord := false
				for _, w := range strings.Fields(s) {
					if len(w) > chars {
						longWord = true
					}
				}
				switch {
				case len(lines) >= 2 && longWord:
					col.Class("multi-line/long-word")
					col.Nontrivial(desc)
				case len(lines) >= 2:
					col.Class("multi-line")
					col.Nontrivial(desc)
				default:
					col.Class("single-line")
				}
				if col.WantSample() {
					col.Sample(map[string]interface{}{"text": s, "indent": indent, "width": width, "lines": len(lines)})
				} else {
					col.SkipSample()
				}
			}
		}
	})
}
