package checks

import (
	"fmt"
	"os"
	"path/filepath"
	"sort"
	"sync"

	"mltwist/verifharness/internal/elfgen"
	"mltwist/verifharness/internal/irsem"

	"pgregory.net/rapid"
)

var (
	scratchOnce sync.Once
	scratchPath string
	scratchSeq  int
)

// scratchDir returns a per-process scratch directory (created by the driver
// under /verif/harness/.run, or a temporary directory when run by hand).
func scratchDir() string {
	scratchOnce.Do(func() {
		if d := os.Getenv("VERIF_SCRATCH"); d != "" {
			scratchPath = filepath.Join(d, "files")
			os.MkdirAll(scratchPath, 0o755)
			return
		}
		d, err := os.MkdirTemp("", "mltwist-verif-")
		if err != nil {
			panic(err)
		}
		scratchPath = d
	})
	return scratchPath
}

// writeScratch writes bytes to a fresh file and returns its name.
func writeScratch(bs []byte) string {
	scratchSeq++
	name := filepath.Join(scratchDir(), fmt.Sprintf("f%d.elf", scratchSeq%64))
	if err := os.WriteFile(name, bs, 0o644); err != nil {
		panic(err)
	}
	return name
}

type addrRange struct{ lo, hi uint64 }

// drawVaddr draws a start address for a range of the given length which
// overlaps an earlier range with the given probability (1/overlapDenom).
func drawVaddr(t *rapid.T, placed []addrRange, length uint64, class64 bool, overlapDenom int, label string) uint64 {
	base := uint64(0x10000)
	if class64 && uniformInt(t, 4, label+"hi") == 0 {
		base = 0x7fff00000000
	}
	if len(placed) > 0 && uniformInt(t, overlapDenom, label+"ov") == 0 {
		p := placed[uniformInt(t, len(placed), label+"which")]
		if p.hi > p.lo {
			return p.lo + uint64(uniformInt(t, int(p.hi-p.lo), label+"into"))
		}
	}
	if len(placed) > 0 && uniformInt(t, 4, label+"adj") == 0 {
		return placed[uniformInt(t, len(placed), label+"adjto")].hi // adjacent
	}
	a := base + uint64(uniformInt(t, 64, label+"slot"))*0x2000
	if uniformInt(t, 8, label+"unaligned") == 0 {
		// nothing in the loader or the parser requires aligned addresses
		a += uint64(1 + uniformInt(t, 3, label+"misalign"))
	}
	return a
}

func rangesOverlap(rs []addrRange) bool {
	var ne []addrRange
	for _, r := range rs {
		if r.hi > r.lo {
			ne = append(ne, r)
		}
	}
	sort.Slice(ne, func(i, j int) bool { return ne[i].lo < ne[j].lo })
	for i := 1; i < len(ne); i++ {
		if ne[i].lo < ne[i-1].hi {
			return true
		}
	}
	return false
}

// drawELFModel draws a layout model. Offsets always lie inside the payload.
func drawELFModel(t *rapid.T) *elfgen.Model {
	m := &elfgen.Model{
		Class64:   uniformInt(t, 3, "class") != 0,
		BigEndian: uniformInt(t, 4, "endian") == 0,
		Machine:   elfgen.EMRiscV,
	}
	switch uniformInt(t, 10, "type") {
	case 0:
		m.Type = elfgen.ETNone
	case 1:
		m.Type = elfgen.ETRel
	case 2:
		m.Type = elfgen.ETCore
	case 3, 4, 5:
		m.Type = elfgen.ETDyn
	default:
		m.Type = elfgen.ETExec
	}
	if uniformInt(t, 8, "machine") == 0 {
		m.Machine = elfgen.EMX8664
	}
	nseg := uniformInt(t, 6, "nseg")
	nsec := uniformInt(t, 7, "nsec")
	m.Segments = make([]elfgen.Segment, nseg)
	plen := 64 + uniformInt(t, 300, "payloadLen")
	m.Payload = irsem.GenBytes(t, plen, "payload")
	for i := range m.Payload {
		// make payload bytes position dependent so wrong offsets are visible
		m.Payload[i] ^= byte(i * 7)
	}
	po := m.PayloadOff()

	var placed []addrRange
	for i := range m.Segments {
		s := &m.Segments[i]
		s.Type = elfgen.PTLoad
		if uniformInt(t, 4, "segType") == 0 {
			s.Type = []uint32{elfgen.PTNull, elfgen.PTNote, elfgen.PTDyn, elfgen.PTPhdr}[uniformInt(t, 4, "segOther")]
		}
		s.Flags = uint32(uniformInt(t, 8, "segFlags"))
		off := uniformInt(t, plen, "segOff")
		s.Off = po + uint64(off)
		s.Filesz = uint64(uniformInt(t, plen-off+1, "filesz"))
		if uniformInt(t, 3, "shortSeg") == 0 && s.Filesz > 16 {
			s.Filesz = uint64(uniformInt(t, 17, "fileszSmall"))
		}
		switch uniformInt(t, 7, "memszKind") {
		case 0, 1, 2:
			s.Memsz = s.Filesz
		case 3, 4:
			s.Memsz = s.Filesz + 1 + uint64(uniformInt(t, 64, "bssSmall"))
		case 5:
			s.Memsz = s.Filesz + uint64(uniformInt(t, 4097, "bss"))
		default:
			if s.Filesz > 0 {
				s.Memsz = uint64(uniformInt(t, int(s.Filesz), "memszLess"))
			}
		}
		s.Vaddr = drawVaddr(t, placed, s.Memsz, m.Class64, 6, "segVaddr")
		if uniformInt(t, 3, "paddrDiffers") == 0 {
			// physical address different from the virtual one (the loader places
			// segments at their virtual address)
			s.PaddrDelta = []uint64{0x1000, 0x100000, ^uint64(0x2000) + 1, 4}[uniformInt(t, 4, "paddrDelta")]
		}
		if s.Type == elfgen.PTLoad {
			placed = append(placed, addrRange{s.Vaddr, s.Vaddr + s.Memsz})
		}
	}
	var placedSec []addrRange
	for i := 0; i < nsec; i++ {
		var s elfgen.Section
		s.Name = []string{".text", ".init", ".plt", ".data", ".rodata", ".bss", ".note", ""}[uniformInt(t, 8, "secName")]
		s.Type = elfgen.SHTProgbits
		switch uniformInt(t, 8, "secType") {
		case 0:
			s.Type = elfgen.SHTNobits
		case 1:
			s.Type = elfgen.SHTNote
		}
		if uniformInt(t, 4, "noexec") != 0 {
			s.Flags = elfgen.SHFAlloc | elfgen.SHFExecinstr
		} else {
			s.Flags = elfgen.SHFAlloc | elfgen.SHFWrite
		}
		off := uniformInt(t, plen, "secOff")
		s.Off = po + uint64(off)
		s.Size = uint64(uniformInt(t, plen-off+1, "secSize"))
		if uniformInt(t, 2, "shortSec") == 0 && s.Size > 24 {
			s.Size = uint64(uniformInt(t, 25, "secSizeSmall"))
		}
		if uniformInt(t, 8, "emptySec") == 0 {
			s.Size = 0
		}
		if uniformInt(t, 8, "addr0") != 0 {
			s.Addr = drawVaddr(t, placedSec, s.Size, m.Class64, 8, "secAddr")
		}
		if s.Type == elfgen.SHTProgbits && s.Size > 0 && s.Addr != 0 && s.Flags&elfgen.SHFExecinstr != 0 {
			placedSec = append(placedSec, addrRange{s.Addr, s.Addr + s.Size})
		}
		m.Sections = append(m.Sections, s)
	}
	m.Entry = 0x10000 + uint64(uniformInt(t, 1<<16, "entry"))
	if uniformInt(t, 8, "noSectionTable") == 0 {
		m.NoSectionTable = true
		m.Sections = nil
		// Without a section header table the payload is the tail of the file: half
		// of these files get a loadable segment whose file image is cut short by the
		// end of the file (p_offset+p_filesz beyond EOF). The loader reads what is
		// there; the rest of the segment is zero up to the in-memory size.
		if len(m.Segments) > 0 && uniformInt(t, 2, "cutShort") == 0 {
			sg := &m.Segments[uniformInt(t, len(m.Segments), "cutSeg")]
			avail := po + uint64(plen) - sg.Off
			sg.Filesz = avail + uint64(1+uniformInt(t, 64, "beyondEOF"))
			if sg.Memsz < sg.Filesz {
				sg.Memsz = sg.Filesz + uint64(uniformInt(t, 40, "cutBss"))
			}
		}
	}
	return m
}

// expBlock is an expected memory block.
type expBlock struct {
	addr  uint64
	bytes []byte
}

func modelSegments(m *elfgen.Model, file []byte) (blocks []expBlock, memszLess bool, overlap bool, anyLoad bool) {
	var rs []addrRange
	for _, s := range m.Segments {
		if s.Type != elfgen.PTLoad {
			continue
		}
		anyLoad = true
		if s.Memsz < s.Filesz {
			memszLess = true
			continue
		}
		end := s.Off + s.Filesz
		if end > uint64(len(file)) {
			end = uint64(len(file)) // file image cut short by the end of the file
		}
		bs := append([]byte{}, file[s.Off:end]...)
		bs = append(bs, make([]byte, s.Memsz-uint64(len(bs)))...)
		blocks = append(blocks, expBlock{s.Vaddr, bs})
		rs = append(rs, addrRange{s.Vaddr, s.Vaddr + s.Memsz})
	}
	return blocks, memszLess, rangesOverlap(rs), anyLoad
}

func modelCode(m *elfgen.Model, file []byte) (blocks []expBlock, overlap bool) {
	var rs []addrRange
	for _, s := range m.Sections {
		if s.Type != elfgen.SHTProgbits || s.Size == 0 || s.Addr == 0 || s.Flags&elfgen.SHFExecinstr == 0 {
			continue
		}
		blocks = append(blocks, expBlock{s.Addr, append([]byte{}, file[s.Off:s.Off+s.Size]...)})
		rs = append(rs, addrRange{s.Addr, s.Addr + s.Size})
	}
	return blocks, rangesOverlap(rs)
}

func modelString(m *elfgen.Model) string {
	return fmt.Sprintf("class64=%v be=%v type=%d machine=%d entry=%x payload=%d segments=%+v sections=%+v nosht=%v",
		m.Class64, m.BigEndian, m.Type, m.Machine, m.Entry, len(m.Payload), m.Segments, m.Sections, m.NoSectionTable)
}
