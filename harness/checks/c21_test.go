package checks

import (
	"bytes"
	"fmt"
	"testing"

	"mltwist/internal/elf"
	"mltwist/internal/parser"
	"mltwist/pkg/expr"
	"mltwist/pkg/model"
	"mltwist/verifharness/internal/elfgen"
	"mltwist/verifharness/internal/ev"
	"mltwist/verifharness/internal/irsem"
	"mltwist/verifharness/internal/rvref"

	"pgregory.net/rapid"
)

// c21Image is a code image: sections of RV64IMA words.
type c21Image struct {
	model *elfgen.Model
	// sections in file order: address, bytes
	secs []expBlock
	// bad is the description of the first undecodable/truncated position in
	// address order, "" if none.
	bad string
}

func drawCodeImage(t *rapid.T, cfg rvref.Cfg) *c21Image {
	img := &c21Image{}
	m := &elfgen.Model{Class64: true, Type: elfgen.ETExec, Machine: elfgen.EMRiscV}
	nsec := 1 + uniformInt(t, 4, "nsec")
	addr := uint64(0x10000 + 0x100*uniformInt(t, 8, "base"))
	if uniformInt(t, 4, "unalignedBase") == 0 {
		// neither the loader nor the parser requires 4-byte aligned code addresses
		addr += uint64(1 + uniformInt(t, 3, "misalign"))
	}
	breakIt := uniformInt(t, 3, "break") == 0
	breakSec := uniformInt(t, nsec, "breakSec")
	for i := 0; i < nsec; i++ {
		n := 1 + uniformInt(t, 12, "nwords")
		var bs []byte
		for k := 0; k < n; k++ {
			_, w := drawInsWord(t, cfg)
			bs = append(bs, wordBytes(w)...)
		}
		if breakIt && i == breakSec {
			if uniformInt(t, 2, "breakKind") == 0 {
				k := uniformInt(t, n, "badIdx")
				bad := []uint32{0x00000000, 0xffffffff, 0x0000007f, 0x00000057}[uniformInt(t, 4, "badWord")]
				if rvref.Decode(bad, cfg) != nil {
					bad = 0
				}
				copy(bs[4*k:], wordBytes(bad))
				img.bad = fmt.Sprintf("undecodable word %08x at %x", bad, addr+uint64(4*k))
			} else {
				cut := 1 + uniformInt(t, 3, "cut")
				bs = bs[:len(bs)-cut]
				img.bad = fmt.Sprintf("truncated word at %x", addr+uint64(len(bs)/4*4))
			}
		}
		img.secs = append(img.secs, expBlock{addr, bs})
		addr += uint64(len(bs))
		if uniformInt(t, 2, "gap") == 0 {
			if uniformInt(t, 3, "oddGap") == 0 {
				addr += uint64(1 + uniformInt(t, 64, "gapBytes"))
			} else {
				addr += uint64(4 * (1 + uniformInt(t, 16, "gapWords")))
			}
		}
	}
	// payload = concatenated section bytes (in shuffled order to decouple file
	// order from address order)
	order := make([]int, nsec)
	for i := range order {
		order[i] = i
	}
	if uniformInt(t, 2, "reverseFileOrder") == 0 {
		for i, j := 0, nsec-1; i < j; i, j = i+1, j-1 {
			order[i], order[j] = order[j], order[i]
		}
	}
	m.Segments = []elfgen.Segment{{Type: elfgen.PTLoad, Flags: 5}}
	po := m.PayloadOff()
	offs := make([]uint64, nsec)
	for _, i := range order {
		offs[i] = po + uint64(len(m.Payload))
		m.Payload = append(m.Payload, img.secs[i].bytes...)
	}
	for _, i := range order {
		m.Sections = append(m.Sections, elfgen.Section{Name: fmt.Sprintf(".text%d", i), Type: elfgen.SHTProgbits,
			Flags: elfgen.SHFAlloc | elfgen.SHFExecinstr, Addr: img.secs[i].addr, Off: offs[i], Size: uint64(len(img.secs[i].bytes))})
	}
	m.Sections = append(m.Sections, elfgen.Section{Name: ".data", Type: elfgen.SHTProgbits, Flags: elfgen.SHFAlloc | elfgen.SHFWrite,
		Addr: 0x90000, Off: po, Size: 4})
	m.Segments[0].Off, m.Segments[0].Filesz, m.Segments[0].Memsz = po, uint64(len(m.Payload)), uint64(len(m.Payload))
	m.Segments[0].Vaddr = img.secs[0].addr
	m.Entry = img.secs[0].addr
	img.model = m
	return img
}

func TestC21(t *testing.T) {
	col := ev.New("C21", "rapid: code images of 1-4 executable sections (adjacent or apart, a quarter starting at an unaligned address, a third of the gaps of arbitrary byte length, file order independent of "+
		"address order) filled with valid words of the configuration (RV64IMA in 3/4 of the cases, any of the 8 otherwise) from an independent encoder (rs1 = x0 a fifth, rs2 = x0 an eighth of the time); with probability 1/3 one position "+
		"holds an undecodable word or the section is cut to a length that is not a multiple of 4; loaded through the ELF "+
		"writer and the real elf.MachineCode. parser.Parse must fail iff such a position exists, else yield exactly one "+
		"instruction per 4 bytes of every block in address order with the bytes at its address, type/name/text of the "+
		"front end and effects that evaluate like the front end's lifting under 2 valuations (same kind/key/width). "+
		"non-trivial = >=2 blocks and >=8 instructions, or an error located outside the first block; distinct by image")
	defer col.Flush()
	if _, msg := rvParser(rv64ima); msg != "" {
		t.Fatalf("%s", msg)
	}

	rapid.Check(t, func(t *rapid.T) {
		col.Case()
		// mostly the configuration the program uses, sometimes any of the 8
		cfg := rv64ima
		if uniformInt(t, 4, "anyCfg") == 0 {
			cfg = drawCfg(t)
		}
		prs, _ := rvParser(cfg)
		col.Class("cfg/" + cfg.String())
		img := drawCodeImage(t, cfg)
		file, _ := img.model.Bytes()
		name := writeScratch(file)
		ep, err := elf.NewParser(name)
		if err != nil {
			t.Fatalf("NewParser: %v", err)
		}
		defer ep.Close()
		code, err := ep.MachineCode()
		if err != nil {
			t.Fatalf("MachineCode: %v (%s)", err, modelString(img.model))
		}
		var ins []parser.Instruction
		if msg := catch(func() { ins, err = parser.Parse(code, prs) }); msg != "" {
			t.Fatalf("Parse: %s (%s)", msg, modelString(img.model))
		}
		if img.bad != "" {
			if err == nil {
				t.Fatalf("Parse succeeded although the image has a %s (%s)", img.bad, modelString(img.model))
			}
			col.Class("error")
			if len(img.secs) > 1 {
				col.Nontrivial(modelString(img.model))
			}
			return
		}
		if err != nil {
			t.Fatalf("Parse failed on a fully decodable image: %v (%s)", err, modelString(img.model))
		}
		// expected positions
		k := 0
		for _, s := range img.secs {
			for off := 0; off < len(s.bytes); off += 4 {
				if k >= len(ins) {
					t.Fatalf("Parse returned %d instructions, image has more (%s)", len(ins), modelString(img.model))
				}
				in := ins[k]
				a := s.addr + uint64(off)
				word := s.bytes[off : off+4]
				if uint64(in.Addr) != a || !bytes.Equal(in.Bytes, word) || uint64(in.Begin()) != a || uint64(in.End()) != a+4 || in.Len() != 4 {
					t.Fatalf("instruction %d: addr %x bytes %x, want addr %x bytes %x", k, uint64(in.Addr), in.Bytes, a, word)
				}
				fe, ferr := prs.Parse(model.Addr(a), word)
				if ferr != nil {
					t.Fatalf("front end rejects %x", word)
				}
				if in.Type != fe.Type || in.Details.Name() != fe.Details.Name() || in.Details.String() != fe.Details.String() {
					t.Fatalf("instruction %d at %x: type/name/text differ from the front end: %q vs %q", k, a, in.Details.String(), fe.Details.String())
				}
				if len(in.Effects) != len(fe.Effects) {
					t.Fatalf("instruction %d at %x (%s): %d effects, front end %d", k, a, fe.Details.String(), len(in.Effects), len(fe.Effects))
				}
				for e := range fe.Effects {
					if msg := equivalentEffects(in.Effects[e], fe.Effects[e], uint64(k)); msg != "" {
						t.Fatalf("instruction %d at %x (%s): effect %d: %s", k, a, fe.Details.String(), e, msg)
					}
				}
				k++
			}
		}
		if k != len(ins) {
			t.Fatalf("Parse returned %d instructions, image has %d positions (%s)", len(ins), k, modelString(img.model))
		}
		col.Class(fmt.Sprintf("ok/blocks=%d", len(img.secs)))
		if len(img.secs) >= 2 && k >= 8 {
			col.Nontrivial(modelString(img.model))
		}
		col.AddExtra("instructions_compared", int64(k))
		if col.WantSample() {
			col.Sample(modelString(img.model))
		} else {
			col.SkipSample()
		}
	})
	_ = rvref.Decode
}

// equivalentEffects compares two effects semantically under 2 valuations.
func equivalentEffects(a, b expr.Effect, salt uint64) string {
	switch x := a.(type) {
	case expr.RegStore:
		y, ok := b.(expr.RegStore)
		if !ok || x.Key() != y.Key() || x.Width() != y.Width() {
			return "kind/key/width differ"
		}
		for s := uint64(1); s <= 2; s++ {
			env := irsem.NewHashEnv(s*977 + salt)
			env.RegBytes = 8
			if irsem.Fit(irsem.Eval(x.Value(), env), x.Width()).Cmp(irsem.Fit(irsem.Eval(y.Value(), env), y.Width())) != 0 {
				return fmt.Sprintf("values differ: %s vs %s", irsem.String(x.Value()), irsem.String(y.Value()))
			}
		}
	case expr.MemStore:
		y, ok := b.(expr.MemStore)
		if !ok || x.Key() != y.Key() || x.Width() != y.Width() {
			return "kind/key/width differ"
		}
		for s := uint64(1); s <= 2; s++ {
			env := irsem.NewHashEnv(s*977 + salt)
			env.RegBytes = 8
			if irsem.Fit(irsem.Eval(x.Value(), env), x.Width()).Cmp(irsem.Fit(irsem.Eval(y.Value(), env), y.Width())) != 0 ||
				irsem.Eval(x.Addr(), env).Cmp(irsem.Eval(y.Addr(), env)) != 0 {
				return "stored value or address differ"
			}
		}
	}
	return ""
}
