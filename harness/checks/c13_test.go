package checks

import (
	"testing"

	"mltwist/internal/exprtransform"
	"mltwist/pkg/expr"
	"mltwist/verifharness/internal/ev"
	"mltwist/verifharness/internal/irsem"

	"pgregory.net/rapid"
)

// c13Count is the model number of alternatives: product over Binary and
// MemLoad, sum over the branches of Less (conditions are not expanded).
func c13Count(e expr.Expr) int {
	switch x := e.(type) {
	case expr.Binary:
		return c13Count(x.Arg1()) * c13Count(x.Arg2())
	case expr.Less:
		return c13Count(x.ExprTrue()) + c13Count(x.ExprFalse())
	case expr.MemLoad:
		return c13Count(x.Addr())
	}
	return 1
}

func c13LessCount(e expr.Expr) (n int, mismatched bool) {
	irsem.Walk(e, func(x expr.Expr) {
		if l, ok := x.(expr.Less); ok {
			n++
			if l.ExprTrue().Width() != l.Width() || l.ExprFalse().Width() != l.Width() {
				mismatched = true
			}
		}
	})
	return
}

var colC13 *ev.Collector

// propC13 is the property of C13; it is shared by the rapid test and the native
// fuzz target.
func propC13(t *rapid.T) {
	col := colC13
	col.Case()
	cfg := irsem.GenCfg{MaxDepth: rapid.IntRange(1, ev.Scale(5, 7)).Draw(t, "depth"), GadgetProb: 10, LessBudget: 4096, MoreLess: true}
	e := irsem.GenExpr(t, cfg)
	if rapid.IntRange(0, 3).Draw(t, "rootShape") == 0 {
		// a root conditional NARROWER (or wider) than a binary operation in one of its
		// branches; operands are leaves so that shift amounts / operands wider than
		// the conditional are frequent
		leaf := func(label string) expr.Expr {
			w := expr.Width(rapid.IntRange(1, 4).Draw(t, label+"w"))
			switch rapid.IntRange(0, 2).Draw(t, label+"k") {
			case 0:
				return expr.NewRegLoad(irsem.RegKeys[rapid.IntRange(0, 3).Draw(t, label+"r")], w)
			case 1:
				bs := make([]byte, w)
				bs[0] = byte(rapid.IntRange(0, 17).Draw(t, label+"lo"))
				if w > 1 {
					bs[rapid.IntRange(1, int(w)-1).Draw(t, label+"hi")] = rapid.Byte().Draw(t, label+"hb")
				}
				return expr.NewConst(bs, w)
			}
			return irsem.GenConst(t, w, label+"c")
		}
		bw := expr.Width(rapid.IntRange(2, 4).Draw(t, "branchW"))
		rw := expr.Width(rapid.IntRange(1, 5).Draw(t, "rootW"))
		br := expr.NewBinary(binOpsAll[rapid.IntRange(0, len(binOpsAll)-1).Draw(t, "branchOp")], leaf("x"), leaf("y"), bw)
		var tr, fl expr.Expr = br, e
		if rapid.Bool().Draw(t, "branchSide") {
			tr, fl = e, br
		}
		e = expr.NewLess(leaf("p"), leaf("q"), tr, fl, rw)
	}
	before := irsem.String(e)
	wantN := c13Count(e)
	if wantN > 4096 {
		t.Fatalf("generator bug: %d alternatives", wantN)
	}

	var ps []expr.Expr
	if msg := catch(func() { ps = exprtransform.Possibilities(e) }); msg != "" {
		t.Fatalf("Possibilities(%s): %s", before, msg)
	}
	if irsem.String(e) != before {
		t.Fatalf("Possibilities modified its argument")
	}
	// The number of alternatives is not part of the statement (an implementation may
	// merge or expand more); it is only recorded.
	if len(ps) == 0 {
		t.Fatalf("Possibilities(%s) is empty", before)
	}
	if len(ps) != wantN {
		col.Class("count-differs-from-product-model")
	}
	for i, p := range ps {
		if p.Width() != e.Width() {
			t.Fatalf("alternative %d of %s has width %d, want %d: %s", i, before, p.Width(), e.Width(), irsem.String(p))
		}
		if n, _ := c13LessCount(p); n != 0 {
			t.Fatalf("alternative %d of %s still contains a conditional: %s", i, before, irsem.String(p))
		}
	}
	for k := 0; k < 3; k++ {
		env := irsem.NewHashEnv(drawEnvSeed(t, "env"))
		want := irsem.Eval(e, env)
		found := false
		for _, p := range ps {
			if irsem.Eval(p, env).Cmp(want) == 0 {
				found = true
				break
			}
		}
		if !found {
			t.Fatalf("no alternative of %s evaluates to %x under valuation seed %d (alternatives: %d)", before, want, env.Seed, len(ps))
		}
	}

	n, mism := c13LessCount(e)
	switch {
	case n >= 2 && mism:
		col.Class("less>=2/mismatched-widths")
		col.Nontrivial(before)
	case n >= 2:
		col.Class("less>=2")
	case n == 1:
		col.Class("less=1")
	default:
		col.Class("less=0")
	}
	if col.WantSample() {
		col.Sample(map[string]interface{}{"expr": before, "alternatives": len(ps)})
	} else {
		col.SkipSample()
	}
}

func TestC13(t *testing.T) {
	colC13 = ev.New("C13", "rapid: expression trees (depth <= 5) with conditionals nested in conditions, branches, "+
		"binary operands and memory-load addresses, alternatives capped at 4096 by a budget passed down the generator; a quarter of the trees gets a root conditional of "+
		"1-5 bytes over a 2-4 byte binary operation of leaves (shift amounts / operands wider than the conditional); "+
		"every alternative must have the expression's width and no conditional, "+
		"and under 3 valuations the value of the expression must equal the value of some alternative (math/big "+
		"evaluator). non-trivial = >=2 conditionals with a branch width different from the conditional's width; "+
		"distinct by tree rendering")
	col := colC13
	defer col.Flush()

	rapid.Check(t, propC13)
}

// FuzzC13 drives the same property with Go's coverage-guided fuzzer (thorough
// tier only; see DESIGN.md).
func FuzzC13(f *testing.F) { f.Fuzz(rapid.MakeFuzz(propC13)) }
