package checks

import (
	"fmt"
	"math/big"
	"sort"
	"strings"

	"mltwist/internal/state/interval"
	"mltwist/internal/state/memory"
	"mltwist/pkg/expr"
	"mltwist/pkg/model"
	"mltwist/verifharness/internal/irsem"

	"pgregory.net/rapid"
)

// memSrc says which byte of which stored value an address currently holds.
type memSrc struct {
	id  int // index into memModel.vals
	idx int // byte index inside the value (after fitting to its store width)
}

type memVal struct {
	e    expr.Expr
	w    expr.Width
	snap string
}

// memModel is a byte-addressed reference memory holding symbolic bytes.
type memModel struct {
	vals  []memVal
	bytes map[uint64]memSrc
	cache map[string]*big.Int
}

func newMemModel() *memModel {
	return &memModel{bytes: map[uint64]memSrc{}, cache: map[string]*big.Int{}}
}

func (m *memModel) addVal(e expr.Expr, w expr.Width) int {
	m.vals = append(m.vals, memVal{e: e, w: w, snap: irsem.String(e)})
	return len(m.vals) - 1
}

func (m *memModel) store(addr uint64, e expr.Expr, w expr.Width) {
	id := m.addVal(e, w)
	for i := 0; i < int(w); i++ {
		m.bytes[addr+uint64(i)] = memSrc{id, i}
	}
}

func (m *memModel) has(a uint64) bool { _, ok := m.bytes[a]; return ok }

// byteVal is the value of the byte at a under env (a must be present).
func (m *memModel) byteVal(a uint64, env *irsem.HashEnv) byte {
	s := m.bytes[a]
	key := fmt.Sprintf("%d/%d", s.id, env.Seed)
	v, ok := m.cache[key]
	if !ok {
		v = irsem.Fit(irsem.Eval(m.vals[s.id].e, env), m.vals[s.id].w)
		m.cache[key] = v
	}
	bs := irsem.ToBytes(v, m.vals[s.id].w)
	return bs[s.idx]
}

// unchanged verifies that no expression handed to the memory was modified.
func (m *memModel) unchanged() string {
	for i, v := range m.vals {
		if s := irsem.String(v.e); s != v.snap {
			return fmt.Sprintf("value %d handed to the memory changed from %s to %s", i, v.snap, s)
		}
	}
	return ""
}

// layered byte view: upper layer first.
type memView struct {
	layers []*memModel
}

func (v memView) find(a uint64) (*memModel, bool) {
	for _, l := range v.layers {
		if l.has(a) {
			return l, true
		}
	}
	return nil, false
}

func (v memView) has(a uint64) bool { _, ok := v.find(a); return ok }

// addrSet returns all present addresses, sorted.
func (v memView) addrSet() []uint64 {
	set := map[uint64]struct{}{}
	for _, l := range v.layers {
		for a := range l.bytes {
			set[a] = struct{}{}
		}
	}
	out := make([]uint64, 0, len(set))
	for a := range set {
		out = append(out, a)
	}
	sort.Slice(out, func(i, j int) bool { return out[i] < out[j] })
	return out
}

func ivString(m interval.Map[model.Addr]) string {
	var sb strings.Builder
	for _, iv := range m.Intervals() {
		fmt.Fprintf(&sb, "[%x,%x)", uint64(iv.Begin()), uint64(iv.End()))
	}
	if sb.Len() == 0 {
		return "{}"
	}
	return sb.String()
}

// normalIntervals renders a sorted address list as normalised intervals.
func normalIntervals(addrs []uint64) string {
	var sb strings.Builder
	for i := 0; i < len(addrs); {
		j := i
		for j+1 < len(addrs) && addrs[j+1] == addrs[j]+1 {
			j++
		}
		fmt.Fprintf(&sb, "[%x,%x)", addrs[i], addrs[j]+1)
		i = j + 1
	}
	if sb.Len() == 0 {
		return "{}"
	}
	return sb.String()
}

// memWindow describes where generated addresses live.
type memWindow struct {
	base uint64
	size int
}

var memWindows = []memWindow{{1000, 48}, {0, 48}, {1<<64 - 300, 48}, {5000, 600}, {1<<64 - 700, 600}}

// memMaxWidth is the largest access width used in window w: the small windows
// force overlaps of short accesses, the large ones exercise widths up to 200
// bytes (expression widths go up to 255).
func memMaxWidth(w memWindow, small int) int {
	if w.size >= 600 {
		return 200
	}
	return small
}

// memChecker drives one memory.Memory against a layered model.
type memChecker struct {
	mem   memory.Memory
	view  memView   // layers, upper first
	top   *memModel // layer receiving stores
	win   memWindow
	hist  strings.Builder
	seeds []uint64
	// returned expressions and their snapshots
	returned []memVal
	// constOnly: only constants may be stored (Bytes)
	constOnly bool
	// stats
	asymLoad, partialOverwrite, multiPiece bool
	maxW                                   int
}

// valMaxWidth is the largest width of stored values.
func (c *memChecker) valMaxWidth() int {
	if c.maxW > 40 {
		return 255
	}
	return 40
}

func (c *memChecker) drawRange(t *rapid.T, label string) (uint64, expr.Width) {
	w := rapid.IntRange(1, c.maxW).Draw(t, label+"_w")
	if rapid.IntRange(0, 2).Draw(t, label+"_small") == 0 {
		w = []int{1, 2, 4, 8}[rapid.IntRange(0, 3).Draw(t, label+"_pw")]
		if w > c.maxW {
			w = c.maxW
		}
	}
	off := rapid.IntRange(0, c.win.size-w).Draw(t, label+"_off")
	return c.win.base + uint64(off), expr.Width(w)
}

func (c *memChecker) checkReturned(t *rapid.T) {
	if msg := c.top.unchanged(); msg != "" {
		t.Fatalf("%s (history %s)", msg, c.hist.String())
	}
	for _, l := range c.view.layers[1:] {
		if msg := l.unchanged(); msg != "" {
			t.Fatalf("base: %s (history %s)", msg, c.hist.String())
		}
	}
	for i, r := range c.returned {
		if s := irsem.String(r.e); s != r.snap {
			t.Fatalf("expression %d returned earlier by Load changed from %s to %s (history %s)", i, r.snap, s, c.hist.String())
		}
	}
}

func (c *memChecker) store(t *rapid.T) {
	addr, w := c.drawRange(t, "st")
	var v expr.Expr
	if c.constOnly || rapid.IntRange(0, 1).Draw(t, "stconst") == 0 {
		vw := w
		switch rapid.IntRange(0, 3).Draw(t, "stvw") {
		case 0:
			vw = irsem.GenWidth(t, irsem.GenCfg{MaxWidth: c.valMaxWidth()}, "stvww")
		}
		v = irsem.GenConst(t, vw, "stv")
	} else {
		v = irsem.GenExpr(t, irsem.GenCfg{MaxDepth: 2, MaxWidth: c.valMaxWidth()})
		if !irsem.HasLoad(v) {
			v = expr.NewRegLoad(irsem.RegKeys[rapid.IntRange(0, 3).Draw(t, "str")], irsem.GenWidth(t, irsem.GenCfg{MaxWidth: c.valMaxWidth()}, "strw"))
		}
	}
	if !c.constOnly && len(c.returned) > 0 && rapid.IntRange(0, 3).Draw(t, "stLoaded") == 0 {
		// copy: store a value an earlier Load returned (possibly at another width)
		v = c.returned[rapid.IntRange(0, len(c.returned)-1).Draw(t, "stLoadedWhich")].e
	}
	// partial overwrite statistics
	covered, all := 0, 0
	for i := 0; i < int(w); i++ {
		if c.top.has(addr + uint64(i)) {
			covered++
		}
		all++
	}
	if covered > 0 {
		c.partialOverwrite = true
	}
	fmt.Fprintf(&c.hist, "store(%x,%s,%d);", addr, irsem.String(v), w)
	if msg := catch(func() { c.mem.Store(model.Addr(addr), v, w) }); msg != "" {
		t.Fatalf("Store: %s (history %s)", msg, c.hist.String())
	}
	c.top.store(addr, v, w)
	c.checkReturned(t)
}

func (c *memChecker) load(t *rapid.T) {
	addr, w := c.drawRange(t, "ld")
	fmt.Fprintf(&c.hist, "load(%x,%d);", addr, w)
	var got expr.Expr
	var ok bool
	if msg := catch(func() { got, ok = c.mem.Load(model.Addr(addr), w) }); msg != "" {
		t.Fatalf("Load: %s (history %s)", msg, c.hist.String())
	}
	want := true
	for i := 0; i < int(w); i++ {
		if !c.view.has(addr + uint64(i)) {
			want = false
		}
	}
	if ok != want {
		t.Fatalf("Load(%x,%d) ok=%v, but model says all bytes present=%v (history %s)", addr, w, ok, want, c.hist.String())
	}
	if !ok {
		return
	}
	if got == nil {
		t.Fatalf("Load(%x,%d) returned nil expression with ok=true", addr, w)
	}
	if got.Width() != w {
		t.Fatalf("Load(%x,%d) returned an expression of width %d: %s (history %s)", addr, w, got.Width(), irsem.String(got), c.hist.String())
	}
	for _, s := range c.seeds {
		env := irsem.NewHashEnv(s)
		wantBytes := make([]byte, w)
		for i := range wantBytes {
			l, _ := c.view.find(addr + uint64(i))
			wantBytes[i] = l.byteVal(addr+uint64(i), env)
		}
		gotV := irsem.Eval(got, env)
		if gotV.Cmp(irsem.FromBytes(wantBytes)) != 0 {
			t.Fatalf("Load(%x,%d) = %s evaluates to %x, want %x (env seed %d; history %s)",
				addr, w, irsem.String(got), gotV, irsem.FromBytes(wantBytes), s, c.hist.String())
		}
	}
	c.returned = append(c.returned, memVal{e: got, w: w, snap: irsem.String(got)})

	// statistics: geometry of the pieces the load is assembled from
	pieces := 0
	var last memSrc
	var lastL *memModel
	first := true
	for i := 0; i < int(w); i++ {
		l, _ := c.view.find(addr + uint64(i))
		s := l.bytes[addr+uint64(i)]
		if first || l != lastL || s.id != last.id || s.idx != last.idx+1 {
			pieces++
			// asymmetric: piece starts in the middle of its value and the
			// value extends beyond the piece by a different amount
		}
		first, last, lastL = false, s, l
	}
	if pieces >= 3 {
		c.multiPiece = true
	}
	l0, _ := c.view.find(addr)
	s0 := l0.bytes[addr]
	le, _ := c.view.find(addr + uint64(w) - 1)
	se := le.bytes[addr+uint64(w)-1]
	droppedLeft := s0.idx
	droppedRight := int(le.vals[se.id].w) - 1 - se.idx
	keptFirst := int(l0.vals[s0.id].w) - s0.idx
	if (droppedLeft > 0 && droppedLeft != keptFirst) || (droppedRight > 0 && droppedRight != se.idx+1) {
		c.asymLoad = true
	}
	c.checkReturned(t)
}

func (c *memChecker) missing(t *rapid.T) {
	addr, w := c.drawRange(t, "ms")
	fmt.Fprintf(&c.hist, "missing(%x,%d);", addr, w)
	var got interval.Map[model.Addr]
	if msg := catch(func() { got = c.mem.Missing(model.Addr(addr), w) }); msg != "" {
		t.Fatalf("Missing: %s (history %s)", msg, c.hist.String())
	}
	var miss []uint64
	for i := 0; i < int(w); i++ {
		if !c.view.has(addr + uint64(i)) {
			miss = append(miss, addr+uint64(i))
		}
	}
	if g, wnt := ivString(got), normalIntervals(miss); g != wnt {
		t.Fatalf("Missing(%x,%d) = %s, want %s (history %s)", addr, w, g, wnt, c.hist.String())
	}
}

func (c *memChecker) blocks(t *rapid.T) {
	var got interval.Map[model.Addr]
	if msg := catch(func() { got = c.mem.Blocks() }); msg != "" {
		t.Fatalf("Blocks: %s (history %s)", msg, c.hist.String())
	}
	if g, wnt := ivString(got), normalIntervals(c.view.addrSet()); g != wnt {
		t.Fatalf("Blocks() = %s, want %s (history %s)", g, wnt, c.hist.String())
	}
}
