package checks

// Deterministic replay tier: every defect the checks found is kept as a plain
// regression check that bypasses the property library. The witnesses run at the
// start of the check of the property they belong to, so a regression is
// reported with its original minimal input before the random search starts.

import (
	"fmt"
	"math/big"
	"strings"
	"testing"

	"mltwist/internal/consoleui"
	"mltwist/internal/consoleui/disassemble"
	"mltwist/internal/consoleui/emulate"
	"mltwist/internal/deps"
	"mltwist/internal/exprtransform"
	"mltwist/internal/opcode"
	"mltwist/internal/riscv"
	"mltwist/internal/state"
	"mltwist/internal/state/interval"
	"mltwist/internal/state/memory"
	"mltwist/pkg/expr"
	"mltwist/pkg/model"
	"mltwist/verifharness/internal/irsem"
	"mltwist/verifharness/internal/rvref"
)

type witness struct {
	name string
	f    func() string // returns "" if the behaviour is right
}

func ivmap(pairs ...uint64) interval.Map[uint64] {
	var ivs []interval.Interval[uint64]
	for i := 0; i+1 < len(pairs); i += 2 {
		ivs = append(ivs, interval.New(pairs[i], pairs[i+1]))
	}
	return interval.NewMap(ivs...)
}

func ivstr(m interval.Map[uint64]) string {
	var sb strings.Builder
	for _, iv := range m.Intervals() {
		fmt.Fprintf(&sb, "[%d,%d)", iv.Begin(), iv.End())
	}
	return sb.String()
}

func constOf(e expr.Expr) (string, bool) {
	c, ok := exprtransform.ConstFold(e).(expr.Const)
	if !ok {
		return irsem.String(e), false
	}
	return hexLE(c.Bytes()), true
}

// liftOne lifts word at addr and applies it to a machine with the given
// registers; it returns the lifted result and the reference trace.
func liftOne(cfg rvref.Cfg, word uint32, addr uint64, regs map[uint32]uint64, csr map[uint32]uint64) (*liftedResult, *rvref.Trace, string) {
	p, msg := rvParser(cfg)
	if msg != "" {
		return nil, nil, msg
	}
	var res *liftedResult
	var tr *rvref.Trace
	crash := catch(func() {
		ins, err := p.Parse(model.Addr(addr), wordBytes(word))
		if err != nil {
			panic("rejected: " + err.Error())
		}
		m := &rvref.Machine{Cfg: cfg, PC: addr, CSR: map[uint32]uint64{}, Mem: &rvref.MapMem{Default: hashMemByte(7)}}
		for r, v := range regs {
			m.X[r] = v
		}
		for c, v := range csr {
			m.CSR[c] = v
		}
		before := cloneMachine(m)
		in := rvref.Decode(word, cfg)
		csrNum := -1
		if in != nil && (in.Fmt == rvref.FmtCSR || in.Fmt == rvref.FmtCSRI) {
			csrNum = int(rvref.Dec(in, word).Csr)
		}
		tr = m.Step(word)
		res, _ = applyLifted(ins.Effects, before, csrNum)
	})
	return res, tr, crash
}

func wantReg(cfg rvref.Cfg, word uint32, addr uint64, regs map[uint32]uint64, rd uint32) func() string {
	return func() string {
		res, tr, crash := liftOne(cfg, word, addr, regs, nil)
		if crash != "" {
			return crash
		}
		if res.problem != "" {
			return res.problem
		}
		if res.xw[rd] != tr.RegsWrite[rd] {
			return fmt.Sprintf("%s word %08x: x%d lifted %x, reference %x", cfg, word, rd, res.xw[rd], tr.RegsWrite[rd])
		}
		next := addr + 4
		if res.ipSet {
			next = res.ip
		}
		if cfg.XLEN == 32 {
			next &= 0xffffffff
		}
		if next != tr.NextPC {
			return fmt.Sprintf("%s word %08x: next pc lifted %x, reference %x", cfg, word, next, tr.NextPC)
		}
		return ""
	}
}

var rv64i = rvref.Cfg{XLEN: 64}
var rv64im = rvref.Cfg{XLEN: 64, M: true}
var rv32i = rvref.Cfg{XLEN: 32}

func tinyUI(words ...uint32) (*consoleui.UI, string) {
	p := &rvProgram{words: words, data: make([]byte, rvDataLen), entry: rvCodeBase}
	for range words {
		p.text = append(p.text, "w")
	}
	ui, _, err := newProgramUI(p)
	if err != nil {
		return nil, err.Error()
	}
	return ui, ""
}

func uiNoCrash(lines []string, words ...uint32) func() string {
	return func() string {
		ui, msg := tinyUI(words...)
		if msg != "" {
			return msg
		}
		old := uiInput.dflt
		uiInput.dflt = "4096"
		defer func() { uiInput.dflt = old }()
		for _, l := range lines {
			if _, _, crash := uiExec(ui, l); crash != "" {
				return fmt.Sprintf("input line %q crashed: %s", l, crash)
			}
			if ui.VerifDepth() == 0 {
				return ""
			}
			if crash, _, _ := renderScreen(ui, 60); crash != "" {
				return fmt.Sprintf("rendering after %q crashed: %s", l, crash)
			}
		}
		return ""
	}
}

var nop = uint32(0x00000013)

var witnesses = map[string][]witness{
	"C17": {
		{"MapComplement of >=2 intervals minus empty", func() string {
			var got string
			if c := catch(func() { got = ivstr(interval.MapComplement(ivmap(1, 3, 17, 20), ivmap())) }); c != "" {
				return c
			}
			if got != "[1,3)[17,20)" {
				return "got " + got
			}
			return ""
		}},
		{"MapIntersect with an interval spanning two", func() string {
			if got := ivstr(interval.MapIntersect(ivmap(0, 1, 2, 3), ivmap(0, 3, 5, 6))); got != "[0,1)[2,3)" {
				return "got " + got
			}
			return ""
		}},
	},
	"C27": {
		{"ConstUint of a width-0 constant", func() string {
			return catch(func() { expr.ConstUint[uint64](expr.NewConst(nil, 0)) })
		}},
		{"NewConstInt(255, 1) must be rejected", func() string {
			if catch(func() { expr.NewConstInt[int32](255, 1) }) == "" {
				return "accepted"
			}
			return ""
		}},
	},
	"C12": {
		{"truncating gadget on a memory-load address is kept", func() string {
			e := expr.NewMemLoad("m0", expr.NewBinary(expr.Add, expr.NewBinary(expr.Add, expr.Zero, expr.NewRegLoad("r0", 2), 2), expr.Zero, 1), 1)
			p := exprtransform.PurgeWidthGadgets(e)
			env := irsem.NewHashEnv(0)
			env.SetReg("r0", big.NewInt(0x1234))
			a1 := irsem.Eval(e.Addr(), env)
			a2 := irsem.Eval(p.(expr.MemLoad).Addr(), env)
			if a1.Cmp(a2) != 0 {
				return fmt.Sprintf("address %x became %x: %s", a1, a2, irsem.String(p))
			}
			return ""
		}},
	},
	"C14": {
		{"narrow load from a wider store", func() string {
			m := memory.NewSparse()
			m.Store(0, expr.ConstFromUint[uint32](0x44332211), 4)
			for i, want := range []string{"11", "22", "33", "44"} {
				e, ok := m.Load(model.Addr(i), 1)
				if !ok || e.Width() != 1 {
					return fmt.Sprintf("Load(%d,1) ok=%v width=%d", i, ok, e.Width())
				}
				if got, _ := constOf(e); got != want {
					return fmt.Sprintf("Load(%d,1) = %s, want %s", i, got, want)
				}
			}
			return ""
		}},
		{"load straddling two stores asymmetrically", func() string {
			m := memory.NewSparse()
			m.Store(0, expr.ConstFromUint[uint32](0x44332211), 4)
			m.Store(4, expr.ConstFromUint[uint32](0x88776655), 4)
			e, ok := m.Load(3, 2)
			if got, _ := constOf(e); !ok || got != "5544" {
				return fmt.Sprintf("Load(3,2) = %s", got)
			}
			return ""
		}},
		{"1-byte value stored 33 bytes wide", func() string {
			m := memory.NewSparse()
			m.Store(100, expr.One, 33)
			e, ok := m.Load(132, 1)
			if got, _ := constOf(e); !ok || got != "00" {
				return fmt.Sprintf("Load(132,1) = %s, want 00", got)
			}
			return ""
		}},
	},
	"C15": {
		{"store before two blocks and aliasing", func() string {
			return catch(func() {
				m, _ := memory.NewBytes([]memory.ByteBlock{c15Block{10, []byte{1}}, c15Block{20, []byte{2}}})
				c := expr.ConstFromUint[uint16](0xbbaa)
				m.Store(0, c, 2)
				m.Store(0, expr.ConstFromUint[uint16](0xffff), 2)
				if hexLE(c.Bytes()) != "bbaa" {
					panic("stored constant changed to " + hexLE(c.Bytes()))
				}
				if e, ok := m.Load(20, 1); !ok || hexLE(e.(expr.Const).Bytes()) != "02" {
					panic("block at 20 lost")
				}
			})
		}},
	},
	"C19": {
		{"partially overlapping masks are ambiguous", func() string {
			ps := []*c19Pat{{0, opcode.Opcode{Bytes: []byte{0, 0}, Mask: []byte{0, 0x0f}}}, {1, opcode.Opcode{Bytes: []byte{0x0f}, Mask: []byte{0x0f}}}}
			if _, err := opcode.NewMatcher(ps); err == nil {
				return "accepted"
			}
			return ""
		}},
	},
	"C02": {
		{"rv32 jal below address zero", func() string {
			p, _ := rvParser(rvref.Cfg{XLEN: 32, M: true, A: true})
			return catch(func() { p.Parse(0x1000, wordBytes(0xd28b5d6f)) })
		}},
	},
	"C01": {
		{"rv64 addi with a negative immediate", wantReg(rv64i, 0xfff08093, 0x1000, map[uint32]uint64{1: 5}, 1)},
		{"jalr clears bit 0", wantReg(rv32i, 0x00100067, 0, nil, 0)},
		{"slli shifts", wantReg(rv32i, 0x00109093, 0, map[uint32]uint64{1: 1}, 1)},
		{"rv64 auipc 0x80000", wantReg(rv64i, 0x80000097, 0x100000000, nil, 1)},
		{"mulhsu with negative rs1", wantReg(rvref.Cfg{XLEN: 32, M: true}, 0x0210a133, 0, map[uint32]uint64{1: 0xffffffff}, 2)},
		{"rem takes the sign of the dividend", wantReg(rv64im, 0x0220e0b3, 0, map[uint32]uint64{1: 1, 2: 1 << 63}, 1)},
	},
	"C25": {
		{"csrrci shows its immediate, slli its shift amount", func() string {
			p, _ := rvParser(rv32i)
			for _, pair := range [][2]uint32{{0x00007073, 0x0000f073}, {0x00109093, 0x00209093}} {
				a, _ := p.Parse(0, wordBytes(pair[0]))
				b, _ := p.Parse(0, wordBytes(pair[1]))
				if a.Details.String() == b.Details.String() {
					return fmt.Sprintf("%08x and %08x are both shown as %q", pair[0], pair[1], a.Details.String())
				}
			}
			return ""
		}},
	},
	"C08": {
		{"empty code is an error, not a crash", func() string {
			var err error
			if c := catch(func() { _, err = deps.NewCode(0x28, nil) }); c != "" {
				return c
			}
			if err == nil {
				return "accepted"
			}
			return ""
		}},
	},
	"C22": {
		{"extra arguments, blank line, out-of-range lines, find on the last line, block move",
			uiNoCrash([]string{"help x", "   ", "m 33 25", "b 99", "g 5", "find zzz", "m 0 3", "b 4", "entry", "e", "memory nosuch", "down 7", "a 5"},
				nop, 0x0000006f, nop, nop, 0x0000006f)},
	},
	"C30": {
		{"address arguments 5, 0b101 and 0", func() string {
			ui, msg := tinyUI(nop, 0x0000006f)
			if msg != "" {
				return msg
			}
			for _, l := range []string{"entrypoint", "emulate", "memory memory"} {
				uiExec(ui, l)
			}
			for _, a := range []string{"5", "0b101", "0"} {
				_, out, crash := uiExec(ui, "address "+a)
				if crash != "" {
					return "address " + a + " crashed: " + crash
				}
				if strings.Contains(out, "cannot parse") {
					return "address " + a + " rejected: " + out
				}
			}
			return ""
		}},
	},
	"C24": {
		{"emulation view right after start", func() string {
			ui, msg := tinyUI(nop, nop, nop, 0x0000006f)
			if msg != "" {
				return msg
			}
			uiExec(ui, "entrypoint")
			uiExec(ui, "emulate")
			v := ui.VerifModeView()
			var crash string
			out := captureStdout(func() { crash = catch(func() { v.Print(v.MinLines()) }) })
			if crash != "" {
				return crash
			}
			if n := strings.Count(out, "\n"); n > v.MinLines() {
				return fmt.Sprintf("wrote %d lines for a grant of %d", n, v.MinLines())
			}
			return ""
		}},
	},
	"C32": {
		{"two blocks in one row; last row of the address space", func() string {
			for _, base := range []uint64{0x100, 1<<64 - 16} {
				mem := memory.NewSparse()
				mem.Store(model.Addr(base), expr.ConstFromUint[uint8](0xaa), 1)
				mem.Store(model.Addr(base+4), expr.ConstFromUint[uint8](0xbb), 1)
				code, _ := buildRVCode(&rvProgram{words: []uint32{nop, 0x6f}, text: []string{"a", "b"}, data: make([]byte, rvDataLen), entry: rvCodeBase})
				emulF := func(c *deps.Code, ip model.Addr) (consoleui.Mode, error) {
					return emulate.New(c, ip, &state.State{Regs: state.NewRegMap(), Mems: memory.MemMap{riscv.MemoryKey: memory.NewSparse(), "k": mem}})
				}
				ui, _ := consoleui.New(disassemble.New(code, emulF))
				for _, l := range []string{"entrypoint", "emulate", "memory k"} {
					uiExec(ui, l)
				}
				out := captureStdout(func() { ui.VerifModeView().Print(50) })
				rows, msg := parseMemView(out)
				if msg != "" {
					return msg
				}
				n := 0
				for _, r := range rows {
					if !r.ellipsis {
						n++
						if r.cells[0] != "AA" || r.cells[4] != "BB" || r.cells[1] != ".." {
							return fmt.Sprintf("row at %x shows %v", base, r.cells)
						}
					}
				}
				if n != 1 {
					return fmt.Sprintf("memory at %x is shown in %d data rows", base, n)
				}
			}
			return ""
		}},
	},
}

// runWitnesses replays the saved inputs of property id.
func runWitnesses(t *testing.T, id string) {
	for _, w := range witnesses[id] {
		var msg string
		if c := catch(func() { msg = w.f() }); c != "" {
			msg = c
		}
		if msg != "" {
			t.Fatalf("replay of saved input %q (property %s) fails: %s", w.name, id, msg)
		}
	}
}
