package checks

import (
	"fmt"
	"testing"

	"mltwist/internal/exprtransform"
	"mltwist/pkg/expr"
	"mltwist/verifharness/internal/ev"
	"mltwist/verifharness/internal/irsem"

	"pgregory.net/rapid"
)

// c09Unfolded returns a description of a node of f which constant folding
// should have removed, or "".
func c09Unfolded(f expr.Expr) string {
	var bad string
	irsem.Walk(f, func(x expr.Expr) {
		if bad != "" {
			return
		}
		switch n := x.(type) {
		case expr.Binary:
			_, ok1 := n.Arg1().(expr.Const)
			_, ok2 := n.Arg2().(expr.Const)
			if ok1 && ok2 {
				bad = irsem.String(n)
			}
		case expr.Less:
			_, ok1 := n.Arg1().(expr.Const)
			_, ok2 := n.Arg2().(expr.Const)
			if ok1 && ok2 {
				bad = irsem.String(n)
			}
		}
	})
	return bad
}

var binOpsAll = []expr.BinaryOp{expr.Add, expr.Lsh, expr.Rsh, expr.Mul, expr.Div, expr.Nand}

var colC09 *ev.Collector

// propC09 is the property of C09; it is shared by the rapid test and the native
// fuzz target.
func propC09(t *rapid.T) {
	col := colC09
	col.Case()
	cfg := irsem.GenCfg{MaxDepth: rapid.IntRange(1, ev.Scale(5, 7)).Draw(t, "depth"), GadgetProb: 25}
	cfg.ConstOnly = rapid.IntRange(0, 9).Draw(t, "constOnly") < 3
	e := irsem.GenExpr(t, cfg)
	if rapid.IntRange(0, 5).Draw(t, "sharedConst") == 0 {
		// two constants of one tree sharing a backing array: a wide constant and
		// the narrowed view WithWidth gives of it (the lifter narrows immediates
		// this way); the narrow one is an operand of a wider all-constant
		// operation that is folded before the wide one is used
		cw := []int{2, 4, 8, 16}[rapid.IntRange(0, 3).Draw(t, "sharedW")]
		bs := make([]byte, cw)
		for i := range bs {
			bs[i] = byte(rapid.IntRange(1, 255).Draw(t, "sharedByte"))
		}
		wide := expr.NewConst(bs, expr.Width(cw))
		narrow := wide.WithWidth(expr.Width(rapid.IntRange(1, cw-1).Draw(t, "sharedN")))
		k := expr.NewConst([]byte{byte(rapid.IntRange(0, 255).Draw(t, "sharedK"))}, 1)
		w := expr.Width(cw)
		op := binOpsAll[rapid.IntRange(0, len(binOpsAll)-1).Draw(t, "sharedOp")]
		var inner expr.Expr = expr.NewBinary(op, narrow, k, w)
		if rapid.Bool().Draw(t, "sharedLess") {
			inner = expr.NewLess(narrow, k, narrow, k, w)
		}
		e = expr.NewBinary(expr.Add, expr.NewBinary(expr.Add, inner, wide, w), e, w)
		col.Class("shared-backing-constants")
	}
	before := irsem.String(e)

	var f expr.Expr
	if msg := catch(func() { f = exprtransform.ConstFold(e) }); msg != "" {
		t.Fatalf("ConstFold(%s): %s", before, msg)
	}
	if after := irsem.String(e); after != before {
		t.Fatalf("ConstFold modified its argument: %s -> %s", before, after)
	}
	if f.Width() != e.Width() {
		t.Fatalf("ConstFold(%s) = %s changes width %d -> %d", before, irsem.String(f), e.Width(), f.Width())
	}
	for i := 0; i < 3; i++ {
		env := irsem.NewHashEnv(drawEnvSeed(t, "env"))
		want, got := irsem.Eval(e, env), irsem.Eval(f, env)
		if want.Cmp(got) != 0 {
			t.Fatalf("ConstFold changes the value under valuation seed %d:\n  e = %s = %x\n  f = %s = %x",
				env.Seed, before, want, irsem.String(f), got)
		}
	}
	if !irsem.HasLoad(e) {
		if _, ok := f.(expr.Const); !ok {
			t.Fatalf("constant-only expression %s folds to non-constant %s", before, irsem.String(f))
		}
	}
	if bad := c09Unfolded(f); bad != "" {
		t.Fatalf("ConstFold(%s) = %s still contains an all-constant operation %s", before, irsem.String(f), bad)
	}
	var ff expr.Expr
	if msg := catch(func() { ff = exprtransform.ConstFold(f) }); msg != "" {
		t.Fatalf("ConstFold(ConstFold(%s)): %s", before, msg)
	}
	if !exprtransform.Equal(ff, f) || irsem.String(ff) != irsem.String(f) {
		t.Fatalf("folding is not idempotent: %s -> %s -> %s", before, irsem.String(f), irsem.String(ff))
	}

	// A folded tree is an ordinary expression: build a bigger tree around it
	// (sharing it between two positions) and fold again.
	if rapid.IntRange(0, 2).Draw(t, "compose") == 0 {
		fStr := irsem.String(f)
		e2 := irsem.GenExpr(t, irsem.GenCfg{MaxDepth: 2, GadgetProb: 25, ConstOnly: cfg.ConstOnly})
		w := irsem.GenWidth(t, cfg, "composeW")
		var g expr.Expr
		switch rapid.IntRange(0, 3).Draw(t, "composeKind") {
		case 0:
			g = expr.NewBinary(binOpsAll[rapid.IntRange(0, len(binOpsAll)-1).Draw(t, "composeOp")], f, e2, w)
		case 1:
			g = expr.NewLess(f, e2, f, e2, w)
		case 2:
			g = expr.NewMemLoad(irsem.MemKeys[0], expr.NewBinary(expr.Add, f, e2, w), irsem.GenWidth(t, cfg, "composeLW"))
		default:
			g = expr.NewLess(e2, f, expr.NewBinary(expr.Add, f, f, w), f, w)
		}
		gStr := irsem.String(g)
		var fg expr.Expr
		if msg := catch(func() { fg = exprtransform.ConstFold(g) }); msg != "" {
			t.Fatalf("ConstFold(%s): %s", gStr, msg)
		}
		for i := 0; i < 2; i++ {
			env := irsem.NewHashEnv(drawEnvSeed(t, "env2"))
			want, got := irsem.Eval(g, env), irsem.Eval(fg, env)
			if want.Cmp(got) != 0 {
				t.Fatalf("ConstFold changes the value of a tree built around a folded tree (valuation seed %d):\n  g = %s = %x\n  folded = %s = %x",
					env.Seed, gStr, want, irsem.String(fg), got)
			}
		}
		if bad := c09Unfolded(fg); bad != "" {
			t.Fatalf("ConstFold(%s) = %s still contains an all-constant operation %s", gStr, irsem.String(fg), bad)
		}
		if irsem.String(f) != fStr || irsem.String(g) != gStr {
			t.Fatalf("ConstFold modified its argument %s", gStr)
		}
		col.Class("composed-around-folded")
	}

	changed := irsem.String(f) != before
	switch {
	case !irsem.HasLoad(e):
		col.Class("const-only")
	case changed:
		col.Class("loads/changed")
		col.Nontrivial(before)
	default:
		col.Class("loads/unchanged")
	}
	col.Class(fmt.Sprintf("depth%d", cfg.MaxDepth))
	if col.WantSample() {
		col.Sample(map[string]string{"expr": before, "folded": irsem.String(f)})
	} else {
		col.SkipSample()
	}
}

func TestC09(t *testing.T) {
	colC09 = ev.New("C09", "rapid: expression trees of depth <= 5 over all six binary operators, Less, register and "+
		"memory loads (address sub-expressions), constants, widths 1..255 with deliberately mismatched parent/child "+
		"widths and randomly inserted width gadgets and gadget look-alikes; 30% constant-only trees; each tree is folded "+
		"and compared with the original under 3 hash-defined valuations by an independent math/big evaluator; a third of the folded trees is "+
		"embedded (shared between two positions) in a bigger tree which is folded and compared again; one tree in six "+
		"also contains a wide constant and its WithWidth-narrowed view (shared backing array) in an all-constant operation. "+
		"non-trivial = folding changed the tree and the tree contains a load (value comparison is not vacuous); "+
		"distinct by structural rendering of the tree")
	col := colC09
	defer col.Flush()

	rapid.Check(t, propC09)
}

// FuzzC09 drives the same property with Go's coverage-guided fuzzer (thorough
// tier only; see DESIGN.md).
func FuzzC09(f *testing.F) { f.Fuzz(rapid.MakeFuzz(propC09)) }
