package checks

import (
	"fmt"
	"math/big"
	"testing"

	"mltwist/internal/exprtransform"
	"mltwist/pkg/expr"
	"mltwist/pkg/expr/exprtools"
	"mltwist/verifharness/internal/ev"
	"mltwist/verifharness/internal/irsem"

	"pgregory.net/rapid"
)

var bigOne = big.NewInt(1)

func pow2bits(n uint) *big.Int { return new(big.Int).Lsh(bigOne, n) }

// toSigned interprets v (already fitted to w bytes) as two's complement.
func toSigned(v *big.Int, w expr.Width) *big.Int {
	if v.Bit(int(w)*8-1) == 1 {
		return new(big.Int).Sub(v, irsem.Pow2(w))
	}
	return new(big.Int).Set(v)
}

// fromSigned reduces v modulo 2^(8w) into the unsigned representation.
func fromSigned(v *big.Int, w expr.Width) *big.Int {
	return new(big.Int).Mod(v, irsem.Pow2(w))
}

func signClass(v *big.Int, w expr.Width) string {
	switch {
	case v.Sign() == 0:
		return "0"
	case v.Cmp(pow2bits(uint(w)*8-1)) == 0:
		return "min"
	case v.Bit(int(w)*8-1) == 1:
		return "-"
	}
	return "+"
}

type c11Gadget struct {
	name  string
	arity int
	// ownWidth: operands must have exactly width w (or be expr.Zero) because
	// the gadget takes signs from the operands' own widths.
	ownWidth bool
	maxW     int
	resW     func(w expr.Width) expr.Width
	build    func(a []expr.Expr, w expr.Width, k int) expr.Expr
	// ref gets operand values already fitted to w (or own width for Bool/Not).
	ref func(v []*big.Int, w expr.Width, k int) *big.Int
	// extra draws an extra integer parameter (bit index / count); -1 if unused.
	extra func(t *rapid.T, w expr.Width) int
	// rawFirst: first operand is passed unfitted (Bool/Not compare at own width).
	rawFirst bool
}

func sameW(w expr.Width) expr.Width { return w }

func boolSel(c bool, t, f *big.Int) *big.Int {
	if c {
		return t
	}
	return f
}

func c11Gadgets() []c11Gadget {
	ones := func(w expr.Width) *big.Int { return new(big.Int).Sub(irsem.Pow2(w), bigOne) }
	return []c11Gadget{
		{name: "Negate", arity: 1, resW: sameW,
			build: func(a []expr.Expr, w expr.Width, _ int) expr.Expr { return exprtools.Negate(a[0], w) },
			ref:   func(v []*big.Int, w expr.Width, _ int) *big.Int { return fromSigned(new(big.Int).Neg(v[0]), w) }},
		{name: "Sub", arity: 2, resW: sameW,
			build: func(a []expr.Expr, w expr.Width, _ int) expr.Expr { return exprtools.Sub(a[0], a[1], w) },
			ref:   func(v []*big.Int, w expr.Width, _ int) *big.Int { return fromSigned(new(big.Int).Sub(v[0], v[1]), w) }},
		{name: "Abs", arity: 1, resW: sameW,
			build: func(a []expr.Expr, w expr.Width, _ int) expr.Expr { return exprtools.Abs(a[0], w) },
			ref: func(v []*big.Int, w expr.Width, _ int) *big.Int {
				return fromSigned(new(big.Int).Abs(toSigned(v[0], w)), w)
			}},
		{name: "Ones", arity: 0, resW: sameW,
			build: func(a []expr.Expr, w expr.Width, _ int) expr.Expr { return exprtools.Ones(w) },
			ref:   func(v []*big.Int, w expr.Width, _ int) *big.Int { return ones(w) }},
		{name: "Mod", arity: 2, resW: sameW,
			build: func(a []expr.Expr, w expr.Width, _ int) expr.Expr { return exprtools.Mod(a[0], a[1], w) },
			ref: func(v []*big.Int, w expr.Width, _ int) *big.Int {
				if v[1].Sign() == 0 {
					return v[0]
				}
				return new(big.Int).Mod(v[0], v[1])
			}},
		{name: "SignedMul", arity: 2, ownWidth: true, maxW: 127, resW: func(w expr.Width) expr.Width { return 2 * w },
			build: func(a []expr.Expr, w expr.Width, _ int) expr.Expr { return exprtools.SignedMul(a[0], a[1], w) },
			ref: func(v []*big.Int, w expr.Width, _ int) *big.Int {
				p := new(big.Int).Mul(toSigned(v[0], w), toSigned(v[1], w))
				return fromSigned(p, 2*w)
			}},
		{name: "SignedDiv", arity: 2, ownWidth: true, resW: sameW,
			build: func(a []expr.Expr, w expr.Width, _ int) expr.Expr { return exprtools.SignedDiv(a[0], a[1], w) },
			ref: func(v []*big.Int, w expr.Width, _ int) *big.Int {
				if v[1].Sign() == 0 {
					return ones(w)
				}
				q := new(big.Int).Quo(toSigned(v[0], w), toSigned(v[1], w)) // truncating
				return fromSigned(q, w)                                     // overflow MIN/-1 wraps to MIN = dividend
			}},
		{name: "SignedMod", arity: 2, ownWidth: true, resW: sameW,
			build: func(a []expr.Expr, w expr.Width, _ int) expr.Expr { return exprtools.SignedMod(a[0], a[1], w) },
			ref: func(v []*big.Int, w expr.Width, _ int) *big.Int {
				// the suite's convention: sign(a) xor sign(b) applied to |a| mod |b|
				sa, sb := toSigned(v[0], w), toSigned(v[1], w)
				aa, ab := new(big.Int).Abs(sa), new(big.Int).Abs(sb)
				var m *big.Int
				if ab.Sign() == 0 {
					m = aa
				} else {
					m = new(big.Int).Mod(aa, ab)
				}
				if (sa.Sign() < 0) != (sb.Sign() < 0) {
					m = new(big.Int).Neg(m)
				}
				return fromSigned(m, w)
			}},
		{name: "SignExtend", arity: 1, resW: sameW,
			extra: func(t *rapid.T, w expr.Width) int {
				bits := int(w) * 8
				switch rapid.IntRange(0, 3).Draw(t, "sbk") {
				case 0:
					return bits - 1
				case 1:
					return (rapid.IntRange(1, int(w)).Draw(t, "sbb") * 8) - 1
				}
				return rapid.IntRange(0, bits-1).Draw(t, "sb")
			},
			build: func(a []expr.Expr, w expr.Width, k int) expr.Expr {
				return exprtools.SignExtend(a[0], expr.ConstFromUint(uint16(k)), w)
			},
			ref: func(v []*big.Int, w expr.Width, k int) *big.Int {
				low := new(big.Int).Mod(v[0], pow2bits(uint(k)))
				if v[0].Bit(k) == 1 {
					return new(big.Int).Add(low, new(big.Int).Sub(irsem.Pow2(w), pow2bits(uint(k))))
				}
				return low
			}},
		{name: "RshA", arity: 2, resW: sameW,
			build: func(a []expr.Expr, w expr.Width, _ int) expr.Expr { return exprtools.RshA(a[0], a[1], w) },
			ref: func(v []*big.Int, w expr.Width, _ int) *big.Int {
				s := toSigned(v[0], w)
				if !v[1].IsUint64() || v[1].Uint64() >= uint64(w)*8 {
					if s.Sign() < 0 {
						return ones(w)
					}
					return new(big.Int)
				}
				return fromSigned(new(big.Int).Rsh(s, uint(v[1].Uint64())), w)
			}},
		{name: "BitNot", arity: 1, resW: sameW,
			build: func(a []expr.Expr, w expr.Width, _ int) expr.Expr { return exprtools.BitNot(a[0], w) },
			ref:   func(v []*big.Int, w expr.Width, _ int) *big.Int { return new(big.Int).Xor(v[0], ones(w)) }},
		{name: "BitAnd", arity: 2, resW: sameW,
			build: func(a []expr.Expr, w expr.Width, _ int) expr.Expr { return exprtools.BitAnd(a[0], a[1], w) },
			ref:   func(v []*big.Int, w expr.Width, _ int) *big.Int { return new(big.Int).And(v[0], v[1]) }},
		{name: "BitOr", arity: 2, resW: sameW,
			build: func(a []expr.Expr, w expr.Width, _ int) expr.Expr { return exprtools.BitOr(a[0], a[1], w) },
			ref:   func(v []*big.Int, w expr.Width, _ int) *big.Int { return new(big.Int).Or(v[0], v[1]) }},
		{name: "BitXor", arity: 2, resW: sameW,
			build: func(a []expr.Expr, w expr.Width, _ int) expr.Expr { return exprtools.BitXor(a[0], a[1], w) },
			ref:   func(v []*big.Int, w expr.Width, _ int) *big.Int { return new(big.Int).Xor(v[0], v[1]) }},
		{name: "Bool", arity: 1, rawFirst: true, resW: func(expr.Width) expr.Width { return 1 },
			build: func(a []expr.Expr, w expr.Width, _ int) expr.Expr { return exprtools.Bool(a[0]) },
			ref: func(v []*big.Int, w expr.Width, _ int) *big.Int {
				return boolSel(v[0].Sign() != 0, big.NewInt(1), new(big.Int))
			}},
		{name: "Not", arity: 1, rawFirst: true, resW: func(expr.Width) expr.Width { return 1 },
			build: func(a []expr.Expr, w expr.Width, _ int) expr.Expr { return exprtools.Not(a[0]) },
			ref: func(v []*big.Int, w expr.Width, _ int) *big.Int {
				return boolSel(v[0].Sign() == 0, big.NewInt(1), new(big.Int))
			}},
		{name: "BoolCond", arity: 3, resW: sameW,
			build: func(a []expr.Expr, w expr.Width, _ int) expr.Expr { return exprtools.BoolCond(a[0], a[1], a[2], w) },
			ref:   func(v []*big.Int, w expr.Width, _ int) *big.Int { return boolSel(v[0].Sign() != 0, v[1], v[2]) }},
		{name: "Eq", arity: 4, resW: sameW,
			build: func(a []expr.Expr, w expr.Width, _ int) expr.Expr { return exprtools.Eq(a[0], a[1], a[2], a[3], w) },
			ref:   func(v []*big.Int, w expr.Width, _ int) *big.Int { return boolSel(v[0].Cmp(v[1]) == 0, v[2], v[3]) }},
		{name: "Lts", arity: 4, resW: sameW,
			build: func(a []expr.Expr, w expr.Width, _ int) expr.Expr { return exprtools.Lts(a[0], a[1], a[2], a[3], w) },
			ref: func(v []*big.Int, w expr.Width, _ int) *big.Int {
				return boolSel(toSigned(v[0], w).Cmp(toSigned(v[1], w)) < 0, v[2], v[3])
			}},
		{name: "Leu", arity: 4, resW: sameW,
			build: func(a []expr.Expr, w expr.Width, _ int) expr.Expr { return exprtools.Leu(a[0], a[1], a[2], a[3], w) },
			ref:   func(v []*big.Int, w expr.Width, _ int) *big.Int { return boolSel(v[0].Cmp(v[1]) <= 0, v[2], v[3]) }},
		{name: "Les", arity: 4, resW: sameW,
			build: func(a []expr.Expr, w expr.Width, _ int) expr.Expr { return exprtools.Les(a[0], a[1], a[2], a[3], w) },
			ref: func(v []*big.Int, w expr.Width, _ int) *big.Int {
				return boolSel(toSigned(v[0], w).Cmp(toSigned(v[1], w)) <= 0, v[2], v[3])
			}},
		{name: "MaskBits", arity: 1, resW: sameW,
			extra: func(t *rapid.T, w expr.Width) int {
				bits := int(w) * 8
				switch rapid.IntRange(0, 4).Draw(t, "cntk") {
				case 0:
					return bits
				case 1:
					return 0
				case 2:
					c := []int{63, 64, 65, 8, 1}[rapid.IntRange(0, 4).Draw(t, "cntb")]
					if c > bits {
						c = bits
					}
					return c
				}
				return rapid.IntRange(0, bits).Draw(t, "cnt")
			},
			build: func(a []expr.Expr, w expr.Width, k int) expr.Expr {
				return exprtools.MaskBits(a[0], exprtools.BitCnt(k), w)
			},
			ref: func(v []*big.Int, w expr.Width, k int) *big.Int { return new(big.Int).Mod(v[0], pow2bits(uint(k))) }},
		{name: "NewWidthGadget", arity: 1, resW: sameW,
			build: func(a []expr.Expr, w expr.Width, _ int) expr.Expr { return exprtools.NewWidthGadget(a[0], w) },
			ref:   func(v []*big.Int, w expr.Width, _ int) *big.Int { return v[0] }},
	}
}

// c11Operand draws an operand expression. If own is true the operand has
// exactly width w (or is expr.Zero).
func c11Operand(t *rapid.T, w expr.Width, own bool, label string) expr.Expr {
	if own {
		switch rapid.IntRange(0, 9).Draw(t, label+"_ok") {
		case 0:
			return expr.Zero
		case 1, 2:
			return expr.NewRegLoad(irsem.RegKeys[rapid.IntRange(0, 3).Draw(t, label+"_r")], w)
		case 3:
			return expr.NewBinary(expr.Add, expr.NewRegLoad(irsem.RegKeys[0], w), irsem.GenConst(t, w, label+"_bc"), w)
		}
		return irsem.GenConst(t, w, label)
	}
	ow := w
	if rapid.IntRange(0, 2).Draw(t, label+"_dw") == 0 {
		ow = irsem.GenWidth(t, irsem.GenCfg{}, label+"_ow")
	}
	switch rapid.IntRange(0, 9).Draw(t, label+"_k") {
	case 0, 1:
		return expr.NewRegLoad(irsem.RegKeys[rapid.IntRange(0, 3).Draw(t, label+"_r")], ow)
	case 2:
		return irsem.GenExpr(t, irsem.GenCfg{MaxDepth: 2, GadgetProb: 10})
	}
	return irsem.GenConst(t, ow, label)
}

func c11Width(t *rapid.T, maxW int) expr.Width {
	var w int
	switch rapid.IntRange(0, 9).Draw(t, "wk") {
	case 0:
		w = []int{127, 128, 255}[rapid.IntRange(0, 2).Draw(t, "wbig")]
	case 1, 2, 3:
		w = []int{1, 2, 4, 8, 16}[rapid.IntRange(0, 4).Draw(t, "wpow")]
	case 4:
		w = rapid.IntRange(1, 255).Draw(t, "wAny")
	default:
		w = rapid.IntRange(1, 64).Draw(t, "w")
	}
	if maxW > 0 && w > maxW {
		w = maxW
	}
	return expr.Width(w)
}

func TestC11(t *testing.T) {
	col := ev.New("C11", "rapid: each of 24 gadget constructors of pkg/expr/exprtools x width in 1..64 + {127,128,255} + a tenth anywhere in 1..255 "+
		"(documented limits respected: SignedMul w<=127, MaskBits cnt<=8w, SignExtend bit<8w) x operands that are "+
		"boundary-biased constants (70%), results of earlier gadgets of the same case (nesting) or symbolic expressions with register/memory loads (30%), of widths equal to "+
		"or different from w (equal for the gadgets that take signs from operand widths, except that a quarter of their "+
		"cases uses operands narrower than w, judged by a weaker oracle accepting the own-width-signed or the zero-extended reading); the gadget tree is evaluated "+
		"by the math/big evaluator under 2 valuations, and constant-folded when all operands are constants, and "+
		"compared with a direct two's-complement reference; WidthGadgetArg is checked on gadgets and look-alikes. "+
		"non-trivial = (gadget, width class, operand sign pattern / special case) cell; distinct cells counted")
	defer col.Flush()
	gadgets := c11Gadgets()

	rapid.Check(t, func(t *rapid.T) {
		// gadget results are ordinary expressions: later gadgets of the same case
		// take them as operands now and then (gadgets nested in gadgets)
		var built []expr.Expr
		for rep := 0; rep < 4; rep++ {
			col.Case()
			gi := rapid.IntRange(0, len(gadgets)).Draw(t, "gadget")
			if gi == len(gadgets) {
				c11WidthGadgetArg(t, col)
				continue
			}
			g := gadgets[gi]
			w := c11Width(t, g.maxW)
			k := -1
			if g.extra != nil {
				k = g.extra(t, w)
			}
			args := make([]expr.Expr, g.arity)
			allConst := true
			// Sign-taking gadgets are documented for operands of width w. Operands
			// NARROWER than w are also exercised (a quarter of the cases), judged by a
			// weaker oracle: each narrower operand may be read as the signed value of
			// its own width or as zero-extended; any consistent reading is accepted.
			narrowMode := g.ownWidth && rapid.IntRange(0, 3).Draw(t, "narrowOperands") == 0
			for i := range args {
				ow := w
				if narrowMode && w > 1 && rapid.Bool().Draw(t, fmt.Sprintf("a%d_narrow", i)) {
					ow = expr.Width(rapid.IntRange(1, int(w)-1).Draw(t, fmt.Sprintf("a%d_ow", i)))
				}
				args[i] = c11Operand(t, ow, g.ownWidth, fmt.Sprintf("a%d", i))
				if len(built) > 0 && !narrowMode && rapid.IntRange(0, 4).Draw(t, fmt.Sprintf("a%d_nested", i)) == 0 {
					if b := built[rapid.IntRange(0, len(built)-1).Draw(t, fmt.Sprintf("a%d_which", i))]; !g.ownWidth || b.Width() == w {
						args[i] = b
						col.Class("operand-is-gadget-result")
					}
				}
				if irsem.HasLoad(args[i]) {
					allConst = false
				}
			}
			var e expr.Expr
			if msg := catch(func() { e = g.build(args, w, k) }); msg != "" {
				t.Fatalf("%s(%s, w=%d, k=%d): %s", g.name, exprList(args), w, k, msg)
			}
			if e.Width() != g.resW(w) {
				t.Fatalf("%s(%s, w=%d) has width %d, documented %d", g.name, exprList(args), w, e.Width(), g.resW(w))
			}
			cell := ""
			for s := 0; s < 2; s++ {
				env := irsem.NewHashEnv(drawEnvSeed(t, "env"))
				vals := make([]*big.Int, len(args))
				for i, a := range args {
					v := irsem.Eval(a, env)
					if !(g.rawFirst && i == 0) {
						v = irsem.Fit(v, w)
					}
					vals[i] = v
				}
				want := g.ref(vals, w, k)
				got := irsem.Eval(e, env)
				if narrowMode && got.Cmp(want) != 0 {
					// try the other readings of the narrower operands
					for mask := 1; mask < 1<<len(args); mask++ {
						alt := append([]*big.Int(nil), vals...)
						for i, a := range args {
							if mask&(1<<i) != 0 && a.Width() < w {
								alt[i] = fromSigned(toSigned(irsem.Eval(a, env), a.Width()), w)
							}
						}
						if r := g.ref(alt, w, k); r.Cmp(got) == 0 {
							want = r
							break
						}
					}
				}
				if got.Cmp(want) != 0 {
					t.Fatalf("%s(%s, w=%d, k=%d) evaluates to %x, reference %x (operand values %x, env seed %d)",
						g.name, exprList(args), w, k, got, want, vals, env.Seed)
				}
				if s == 0 {
					cell = g.name + "/w" + widthClass(w)
					for i, v := range vals {
						if g.rawFirst && i == 0 {
							cell += "/" + boolSel(v.Sign() == 0, big.NewInt(0), big.NewInt(1)).String()
						} else {
							cell += "/" + signClass(v, w)
						}
						if i >= 1 {
							break
						}
					}
				}
				if allConst {
					var f expr.Expr
					if msg := catch(func() { f = exprtransform.ConstFold(e) }); msg != "" {
						t.Fatalf("ConstFold(%s(%s, w=%d, k=%d)): %s", g.name, exprList(args), w, k, msg)
					}
					fc, ok := f.(expr.Const)
					if !ok || fc.Width() != e.Width() || constVal(fc).Cmp(want) != 0 {
						t.Fatalf("ConstFold(%s(%s, w=%d, k=%d)) = %s, reference value %x", g.name, exprList(args), w, k, irsem.String(f), want)
					}
					break
				}
			}
			built = append(built, e)
			if narrowMode {
				col.Class("sign-gadget-with-narrower-operand")
			}
			col.Class(g.name)
			col.Nontrivial(cell)
			if col.WantSample() {
				col.Sample(map[string]interface{}{"gadget": g.name, "w": int(w), "k": k, "operands": exprListS(args)})
			} else {
				col.SkipSample()
			}
		}
	})
}

func exprListS(es []expr.Expr) []string {
	out := make([]string, len(es))
	for i, e := range es {
		out[i] = irsem.String(e)
	}
	return out
}

func exprList(es []expr.Expr) string { return fmt.Sprint(exprListS(es)) }

func c11WidthGadgetArg(t *rapid.T, col *ev.Collector) {
	e := irsem.GenExpr(t, irsem.GenCfg{MaxDepth: 1})
	w := irsem.GenWidth(t, irsem.GenCfg{}, "gw")
	type cand struct {
		name string
		e    expr.Expr
		is   bool
	}
	zero2 := expr.NewConst([]byte{0, 0}, 2)
	cands := []cand{
		{"gadget", exprtools.NewWidthGadget(e, w), true},
		{"add(e,zero of width 1 built separately)", expr.NewBinary(expr.Add, e, expr.NewConst([]byte{0}, 1), w), true},
		{"add(e,zero of width 2)", expr.NewBinary(expr.Add, e, zero2, w), false},
		{"add(e,one)", expr.NewBinary(expr.Add, e, expr.One, w), false},
		{"nand(e,zero)", expr.NewBinary(expr.Nand, e, expr.Zero, w), false},
		{"lsh(e,zero)", expr.NewBinary(expr.Lsh, e, expr.Zero, w), false},
		{"plain", e, false},
	}
	if _, isConstZero := e.(expr.Const); !isConstZero || !e.(expr.Const).Equal(expr.Zero) {
		cands = append(cands, cand{"add(zero,e)", expr.NewBinary(expr.Add, expr.Zero, e, w), false})
	}
	c := cands[rapid.IntRange(0, len(cands)-1).Draw(t, "cand")]
	if c.name == "plain" {
		// a plain expression may itself be a gadget by chance
		_, c.is = irsem.IsWidthGadget(e)
	}
	var arg expr.Expr
	var ok bool
	if msg := catch(func() { arg, ok = exprtools.WidthGadgetArg(c.e) }); msg != "" {
		t.Fatalf("WidthGadgetArg(%s): %s", irsem.String(c.e), msg)
	}
	if ok != c.is {
		t.Fatalf("WidthGadgetArg(%s) recognised=%v, want %v (%s)", irsem.String(c.e), ok, c.is, c.name)
	}
	if ok && c.name != "plain" && irsem.String(arg) != irsem.String(e) {
		t.Fatalf("WidthGadgetArg(%s) returned %s, want %s", irsem.String(c.e), irsem.String(arg), irsem.String(e))
	}
	col.Class("WidthGadgetArg")
	col.Nontrivial("WidthGadgetArg/" + c.name)
}
