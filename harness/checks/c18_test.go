package checks

import (
	"fmt"
	"math/big"
	"sort"
	"testing"

	"mltwist/internal/exprtransform"
	"mltwist/internal/state"
	"mltwist/pkg/expr"
	"mltwist/pkg/model"
	"mltwist/verifharness/internal/ev"
	"mltwist/verifharness/internal/irsem"

	"pgregory.net/rapid"
)

type c18Reg struct {
	e expr.Expr
	w expr.Width
}

func c18Snapshot(s *state.State) string {
	keys := make([]string, 0, s.Regs.Len())
	for k, v := range s.Regs.Values() {
		keys = append(keys, string(k)+"="+irsem.String(v))
	}
	sort.Strings(keys)
	mk := make([]string, 0, len(s.Mems))
	for k := range s.Mems {
		var bl string
		for _, iv := range s.Mems.Blocks(k).Intervals() {
			bl += fmt.Sprintf("[%x,%x)", iv.Begin(), iv.End())
		}
		mk = append(mk, string(k)+":"+bl)
	}
	sort.Strings(mk)
	return fmt.Sprint(keys, mk)
}

func TestC18(t *testing.T) {
	col := ev.New("C18", "rapid state machine over state.State: register stores of constant and symbolic values (incl. loads of the destination register itself and of other registers of the file) with "+
		"value width <, =, > store width, register loads at any width, Apply of register stores and of memory stores "+
		"with constant, foldable (constant sub-tree) and non-constant addresses (register + constant, register shifted by 1-63 bits, register NAND constant, memory load, register + arithmetic on the very constant object a register holds). Model: key -> (expression, store width); "+
		"loaded expression evaluated by the math/big evaluator under 2 valuations must equal fit(fit(value,w_store),w_load). "+
		"non-trivial = history with a load narrower or wider than the store width of a symbolic value and a refused "+
		"memory store; distinct by history rendering")
	defer col.Flush()
	keys := []expr.Key{"x1", "x2", "csr7", expr.IPKey}
	loadKeys := []expr.Key{"x1", "x2", "csr7", "never"}

	rapid.Check(t, func(t *rapid.T) {
		col.Case()
		st := state.New()
		regs := map[expr.Key]c18Reg{}
		hist := ""
		var mismLoad, refused bool
		envSeeds := []uint64{drawEnvSeed(t, "env1"), drawEnvSeed(t, "env2")}

		// constants the register file holds as they were handed in (a store keeps a
		// constant of the store's width): later address expressions reuse the very
		// same constant objects
		var shared []expr.Const
		doStore := func(viaApply bool) {
			k := keys[rapid.IntRange(0, len(keys)-1).Draw(t, "key")]
			v := irsem.GenExpr(t, irsem.GenCfg{MaxDepth: 2, GadgetProb: 10})
			w := irsem.GenWidth(t, irsem.GenCfg{}, "sw")
			if rapid.IntRange(0, 2).Draw(t, "eqw") == 0 {
				w = v.Width()
			}
			switch rapid.IntRange(0, 7).Draw(t, "selfRef") {
			case 0:
				// register moved to itself (at the store width or another width): the
				// value denotes the register's content in the valuation, not the
				// stored expression, so the store still replaces the whole register
				lw := w
				if rapid.Bool().Draw(t, "selfOtherW") {
					lw = irsem.GenWidth(t, irsem.GenCfg{}, "selfW")
				}
				if k != expr.IPKey { // the instruction pointer key cannot be loaded
					v = expr.NewRegLoad(k, lw)
				}
			case 1:
				// value computed from the destination and another register of the file
				k2 := keys[rapid.IntRange(0, len(keys)-1).Draw(t, "key2")]
				if k != expr.IPKey && k2 != expr.IPKey {
					v = expr.NewBinary(expr.Add, expr.NewRegLoad(k, w), expr.NewRegLoad(k2, w), w)
				}
			}
			if viaApply {
				var ok bool
				if msg := catch(func() { ok = st.Apply(expr.NewRegStore(v, k, w)) }); msg != "" {
					t.Fatalf("Apply(regstore %s <- %s): %s", k, irsem.String(v), msg)
				}
				if !ok {
					t.Fatalf("Apply of a register store was refused")
				}
			} else {
				if k == expr.IPKey {
					k = "x1"
				}
				if msg := catch(func() { st.Regs.Store(k, v, w) }); msg != "" {
					t.Fatalf("Store(%s, %s, %d): %s", k, irsem.String(v), w, msg)
				}
			}
			regs[k] = c18Reg{v, w}
			if c, ok := v.(expr.Const); ok && c.Width() == w && w >= 2 {
				shared = append(shared, c)
			}
			hist += fmt.Sprintf("store(%s,%s,%d);", k, irsem.String(v), w)
		}

		t.Repeat(map[string]func(*rapid.T){
			"store":    func(t *rapid.T) { doStore(false) },
			"applyReg": func(t *rapid.T) { doStore(true) },
			"load": func(t *rapid.T) {
				k := loadKeys[rapid.IntRange(0, len(loadKeys)-1).Draw(t, "lkey")]
				w := irsem.GenWidth(t, irsem.GenCfg{}, "lw")
				var got expr.Expr
				var ok bool
				if msg := catch(func() { got, ok = st.Regs.Load(k, w) }); msg != "" {
					t.Fatalf("Load(%s,%d): %s (history %s)", k, w, msg, hist)
				}
				m, written := regs[k]
				if ok != written {
					t.Fatalf("Load(%s,%d) present=%v but written=%v (history %s)", k, w, ok, written, hist)
				}
				if !ok {
					return
				}
				if got.Width() != w {
					t.Fatalf("Load(%s,%d) has width %d (history %s)", k, w, got.Width(), hist)
				}
				for _, s := range envSeeds {
					env := irsem.NewHashEnv(s)
					want := irsem.Fit(irsem.Fit(irsem.Eval(m.e, env), m.w), w)
					if g := irsem.Eval(got, env); g.Cmp(want) != 0 {
						t.Fatalf("Load(%s,%d) = %s evaluates to %x, want %x: last store was (%s, width %d) (env seed %d)",
							k, w, irsem.String(got), g, want, irsem.String(m.e), m.w, s)
					}
				}
				if w != m.w && irsem.HasLoad(m.e) {
					mismLoad = true
				}
				hist += fmt.Sprintf("load(%s,%d);", k, w)
			},
			"applyMem": func(t *rapid.T) {
				kind := rapid.IntRange(0, 2).Draw(t, "addrKind")
				var addr expr.Expr
				var wantAddr uint64
				base := uint64(rapid.IntRange(0, 200).Draw(t, "abase"))
				if rapid.IntRange(0, 5).Draw(t, "hi") == 0 {
					base += 1<<63 + 12345
				}
				aw := expr.Width(rapid.IntRange(1, 12).Draw(t, "aw"))
				switch kind {
				case 0: // plain constant
					addr = irsem.Const(new(big.Int).SetUint64(base), aw)
					wantAddr = irsem.Fit(new(big.Int).SetUint64(base), aw).Uint64()
				case 1: // foldable
					off := uint64(rapid.IntRange(0, 100).Draw(t, "off"))
					addr = expr.NewBinary(expr.Add, irsem.Const(new(big.Int).SetUint64(base), 8),
						expr.NewLess(expr.Zero, expr.One, irsem.Const(new(big.Int).SetUint64(off), 2), expr.NewRegLoad("x1", 8), 8), aw)
					sum := new(big.Int).SetUint64(base)
					sum.Add(sum, new(big.Int).SetUint64(off))
					wantAddr = irsem.Fit(irsem.Fit(sum, aw), 8).Uint64()
				default: // not constant
					r := expr.NewRegLoad("x2", 8)
					sh := irsem.Const(big.NewInt(int64(1+rapid.IntRange(0, 62).Draw(t, "shiftBits"))), 1)
					dk := rapid.IntRange(0, 4).Draw(t, "dynKind")
					if len(shared) > 0 && rapid.IntRange(0, 2).Draw(t, "sharedConst") == 0 {
						dk = 5
					}
					switch dk {
					case 5:
						// unknown register + arithmetic on a constant object a register holds,
						// at a width narrower than that constant
						c := shared[rapid.IntRange(0, len(shared)-1).Draw(t, "sharedWhich")]
						nw := expr.Width(rapid.IntRange(1, int(c.Width())-1).Draw(t, "sharedW"))
						op := []expr.BinaryOp{expr.Mul, expr.Div, expr.Add, expr.Lsh}[rapid.IntRange(0, 3).Draw(t, "sharedOp")]
						var part expr.Expr = expr.NewBinary(op, c, irsem.Const(big.NewInt(int64(rapid.IntRange(1, 9).Draw(t, "sharedK"))), 1), nw)
						if op == expr.Lsh {
							part = expr.NewBinary(expr.Lsh, irsem.Const(big.NewInt(3), 2), c, nw) // the shared constant as shift amount
						}
						addr = expr.NewBinary(expr.Add, r, part, 8)
					case 0:
						addr = expr.NewBinary(expr.Add, r, irsem.Const(new(big.Int).SetUint64(base), 8), 8)
					case 1: // register shifted left by 1..63 bits: some of its bits survive
						addr = expr.NewBinary(expr.Lsh, r, sh, 8)
					case 2:
						addr = expr.NewBinary(expr.Rsh, r, sh, 8)
					case 3:
						addr = expr.NewBinary(expr.Nand, r, irsem.Const(new(big.Int).SetUint64(base|1), 8), 8)
					default: // a memory load
						addr = expr.NewMemLoad(irsem.MemKeys[0], irsem.Const(new(big.Int).SetUint64(base), 8), 8)
					}
				}
				v := irsem.GenExpr(t, irsem.GenCfg{MaxDepth: 1})
				w := expr.Width(rapid.IntRange(1, 16).Draw(t, "mw"))
				mk := irsem.MemKeys[rapid.IntRange(0, 1).Draw(t, "mk")]
				before := c18Snapshot(st)
				var ok bool
				if msg := catch(func() { ok = st.Apply(expr.NewMemStore(v, mk, addr, w)) }); msg != "" {
					t.Fatalf("Apply(memstore %s): %s", irsem.String(addr), msg)
				}
				if kind == 2 {
					if ok {
						t.Fatalf("memory store to non-constant address %s was applied", irsem.String(addr))
					}
					if after := c18Snapshot(st); after != before {
						t.Fatalf("refused memory store changed the state:\n before %s\n after  %s", before, after)
					}
					refused = true
					hist += "memstore-refused;"
					return
				}
				if !ok {
					t.Fatalf("memory store to constant address %s was refused", irsem.String(addr))
				}
				got, lok := st.Mems.Load(mk, model.Addr(wantAddr), w)
				if !lok {
					t.Fatalf("after Apply(memstore %s @%s = 0x%x, width %d) the range cannot be loaded", mk, irsem.String(addr), wantAddr, w)
				}
				for _, s := range envSeeds {
					env := irsem.NewHashEnv(s)
					want := irsem.Fit(irsem.Eval(v, env), w)
					if g := irsem.Fit(irsem.Eval(got, env), w); g.Cmp(want) != 0 || got.Width() != w {
						t.Fatalf("memory store %s at 0x%x width %d reads back %s = %x, want %x", irsem.String(v), wantAddr, w, irsem.String(got), g, want)
					}
				}
				if exprtransform.Equal(addr, addr) { // keep import
				}
				hist += fmt.Sprintf("memstore(%s@%x,%d);", mk, wantAddr, w)
			},
			"": func(t *rapid.T) {
				if st.Regs.Len() != len(regs) {
					t.Fatalf("register file has %d registers, model %d (history %s)", st.Regs.Len(), len(regs), hist)
				}
			},
		})
		col.Class(fmt.Sprintf("regs=%d", len(regs)))
		if mismLoad && refused {
			col.Nontrivial(hist)
		}
		if col.WantSample() {
			col.Sample(hist)
		} else {
			col.SkipSample()
		}
	})
}
