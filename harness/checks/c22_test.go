package checks

import (
	"errors"
	"fmt"
	"math"
	"math/big"
	"strings"
	"testing"

	"mltwist/internal/consoleui"
	"mltwist/verifharness/internal/ev"

	"pgregory.net/rapid"
)

type uiCmd struct {
	keys  []string
	nargs int
	// opt: accepts additional arguments
	opt  bool
	kind string // argument kind: "num", "str", "addr", "regex", "memkey", "regkey", ""
}

var uiCommands = map[string][]uiCmd{
	"app": {
		{[]string{"quit", "q"}, 0, false, ""}, {[]string{"help", "h"}, 0, false, ""},
		{[]string{"down", "d"}, 1, false, "num"}, {[]string{"up", "u"}, 1, false, "num"},
		{[]string{"move", "mv", "m"}, 2, false, "num"}, {[]string{"bounds", "b"}, 1, false, "num"},
		{[]string{"find", "f", "/"}, 1, true, "regex"}, {[]string{"goto", "g"}, 1, false, "num"},
		{[]string{"entrypoint", "entry"}, 0, false, ""}, {[]string{"alllines"}, 0, false, ""},
		{[]string{"emulate", "emul", "e"}, 0, false, ""},
	},
	"emulate": {
		{[]string{"quit", "q"}, 0, false, ""}, {[]string{"help", "h"}, 0, false, ""},
		{[]string{"forward", "fwd", "f", "step", "s"}, 0, false, ""}, {[]string{"memories", "mems", "ms"}, 0, false, ""},
		{[]string{"memory", "mem", "m"}, 1, false, "memkey"}, {[]string{"regmod", "rmod"}, 1, false, "regkey"},
	},
	"memview": {
		{[]string{"quit", "q"}, 0, false, ""}, {[]string{"help", "h"}, 0, false, ""},
		{[]string{"down", "d"}, 1, false, "num"}, {[]string{"up", "u"}, 1, false, "num"},
		{[]string{"goto", "g"}, 1, false, "num"}, {[]string{"address", "addr", "a"}, 1, false, "addr"},
	},
}

func modeClass(name string) string {
	if strings.HasPrefix(name, "memview") {
		return "memview"
	}
	return name
}

// drawArg draws an argument token of the wanted kind or, a quarter of the
// time, of any other kind.
func drawArg(t *rapid.T, kind string, lines int) (string, string) {
	if kind == "" || uniformInt(t, 4, "anyKind") == 0 {
		kind = []string{"num", "str", "addr", "regex", "memkey", "regkey"}[uniformInt(t, 6, "kind")]
	}
	switch kind {
	case "num":
		switch uniformInt(t, 10, "numClass") {
		case 0:
			return "0", "num/zero"
		case 1:
			return fmt.Sprint(lines - 1), "num/last-line"
		case 2:
			return fmt.Sprint(lines), "num/line-count"
		case 3:
			return fmt.Sprint(lines + 1 + uniformInt(t, 5, "beyond")), "num/beyond"
		case 4:
			return "-" + fmt.Sprint(1+uniformInt(t, 9, "negv")), "num/negative"
		case 5:
			return fmt.Sprint(math.MaxInt), "num/maxint"
		case 6:
			return "99999999999999999999999", "num/overflow"
		case 7:
			return []string{"abc", "1x", "0x10", "1.5", "+3", "１"}[uniformInt(t, 6, "nan")], "num/not-a-number"
		default:
			return fmt.Sprint(uniformInt(t, lines+2, "small")), "num/small"
		}
	case "addr":
		return drawNumberString(t, false), "addr"
	case "regex":
		return []string{"Block", "x1", "^Block", "1$", ".*", "[", "(", "a*", "\\", "addi|jal", "x[0-9]+", "^$", "zzzz", "|", "0x1"}[uniformInt(t, 15, "re")], "regex"
	case "memkey":
		return []string{"memory", "foo", "m", "#r:w:ip", "x1"}[uniformInt(t, 5, "mk")], "memkey"
	case "regkey":
		return []string{"x1", "x8", "#r:w:ip", "x0", "nosuch", "csr768", "x31"}[uniformInt(t, 7, "rk")], "regkey"
	default:
		return []string{"a", "-", "?", "x", "q", "0"}[uniformInt(t, 6, "one")], "str/one-char"
	}
}

// drawLine draws an input line for the given mode.
func drawLine(t *rapid.T, mode string, lines int) (string, string) {
	switch uniformInt(t, 30, "lineKind") {
	case 0:
		return "", "blank"
	case 1:
		return strings.Repeat(" ", 1+uniformInt(t, 3, "nsp")), "spaces-only"
	case 2:
		return "\t", "tab"
	case 3:
		return []string{"nosuchcommand", "D", "Quit", "?", "down1", "/x"}[uniformInt(t, 6, "unk")], "unknown-command"
	}
	cmds := uiCommands[modeClass(mode)]
	c := cmds[uniformInt(t, len(cmds), "cmd")]
	if c.keys[0] == "quit" && uniformInt(t, 3, "lessQuit") != 0 {
		c = cmds[2+uniformInt(t, len(cmds)-2, "cmd2")]
	}
	key := c.keys[uniformInt(t, len(c.keys), "alias")]
	nargs := c.nargs
	arity := "exact"
	switch uniformInt(t, 8, "arity") {
	case 0:
		if nargs > 0 {
			nargs--
			arity = "too-few"
		}
	case 1:
		nargs += 1 + uniformInt(t, 2, "extra")
		arity = "too-many"
	}
	parts := []string{key}
	class := ""
	for i := 0; i < nargs; i++ {
		a, cl := drawArg(t, c.kind, lines)
		parts = append(parts, a)
		class = cl
	}
	sep := " "
	if uniformInt(t, 6, "wideSep") == 0 {
		sep = "   "
	}
	line := strings.Join(parts, sep)
	switch uniformInt(t, 8, "pad") {
	case 0:
		line = " " + line
	case 1:
		line = line + "  "
	case 2:
		line = "  " + line + " "
	}
	return line, fmt.Sprintf("%s/%s/%s/%s", modeClass(mode), c.keys[0], arity, class)
}

// renderScreen does what view.Print does for a terminal of the given height.
func renderScreen(ui *consoleui.UI, screenLines int) (crash string, err error, out string) {
	out = captureStdout(func() {
		crash = catch(func() {
			e := ui.VerifScreen()
			if screenLines < e.MinLines() {
				return
			}
			lines := e.MaxLines()
			if lines < 0 || lines > screenLines {
				lines = screenLines
			}
			err = e.Print(lines)
		})
	})
	return
}

// c22MaxPointer = 2^64-148-128: the largest data pointer the generated programs
// may be given without any access range reaching 2^64.
var c22MaxPointer = new(big.Int).Sub(new(big.Int).Lsh(big.NewInt(1), 64), big.NewInt(148+128))

// c22MaxFreePointer = 2^64-16: the largest value of x13 (offsets 0..7, widths up
// to 8) with every access range ending below 2^64.
var c22MaxFreePointer = new(big.Int).Sub(new(big.Int).Lsh(big.NewInt(1), 64), big.NewInt(16))

func TestC22(t *testing.T) {
	runWitnesses(t, "C22")
	col := ev.New("C22", "rapid state machine over the real console UI (hooks feed lines to processCommand and render the "+
		"screen like Run does): program = generated RV64IMA code (1-24 instructions, one to several blocks) with the real "+
		"disassembler mode and the emulation factory of main.go. Each action is one input line from a grammar: every "+
		"command key and alias of the current mode x arity (exact, too few, too many) x argument tokens (small numbers, "+
		"last line, line count, beyond, negative, MaxInt, overflow, not-a-number, addresses in every base, regex "+
		"fragments incl. malformed, known/unknown memory and register keys, one-character tokens) x spacing (leading, "+
		"trailing, repeated, blank, spaces only, tab) plus unknown commands; prompts are answered by scripted lines and "+
		"then a valid number for ever; besides single lines there are bursts of emulation steps and bursts of a block move followed by bounds/move commands. After every line the screen is rendered for a terminal of 5-60 lines. Oracle: no panic, "+
		"processCommand returns nil (or the quit of the outermost mode). non-trivial = history reaching >=2 modes with "+
		">=1 rejected line; distinct by (command, arity, argument class) cells covered")
	defer col.Flush()

	// Known finding: a memory access whose range ends at or wraps beyond 2^64
	// panics inside the interval tree of the sparse memory.
	endOfSpaceKnown := col.Known("access-at-end-of-address-space")
	if endOfSpaceKnown {
		w := &rvProgram{words: []uint32{0xffc02083, 0x0000006f}, text: []string{"lw x1,-4(x0)", "jal x0,0"}, data: make([]byte, rvDataLen), entry: rvCodeBase}
		wui, _, werr := newProgramUI(w)
		if werr == nil {
			uiExec(wui, "entrypoint")
			uiExec(wui, "emulate")
			if _, _, crash := uiExec(wui, "s"); crash != "" {
				col.ReportKnown("access-at-end-of-address-space", "emulating lw x1,-4(x0) (a memory access whose range ends at 2^64) panics: low cannot be greater than high")
			}
		}
		// exclusion by construction: when the UI asks for a register the generated
		// programs use as a data pointer (x8, x9), the answer is kept at least 4 KiB
		// away from both ends of the address space (offsets are 12 bit); every other
		// prompt gets the drawn answer unchanged
		uiInput.dflt = "4096"
		uiInput.adapt = func(prompt, line string) string {
			limit := c22MaxPointer
			switch {
			case strings.Contains(prompt, "value of register x8 "), strings.Contains(prompt, "value of register x9 "):
			case strings.Contains(prompt, "value of register x13 "):
				// x13 is only used with offsets 0..7 and widths up to 8
				limit = c22MaxFreePointer
			default:
				return line
			}
			v, ok := new(big.Int).SetString(strings.TrimSpace(line), 0)
			if !ok {
				return line
			}
			// offsets of generated accesses are -10..139 (+128 for the atomics' pointer),
			// widths at most 8: a pointer of at most 2^64-148 never produces a range that
			// ends at or beyond 2^64, one of at least 4096 never one below 0
			if v.Sign() < 0 || v.Cmp(big.NewInt(4096)) < 0 || v.Cmp(limit) > 0 {
				col.Excluded("access-at-end-of-address-space")
				return "0x7010"
			}
			return line
		}
	} else {
		uiInput.dflt = "0"
	}
	defer func() { uiInput.dflt = "0"; uiInput.adapt = nil }()

	rapid.Check(t, func(t *rapid.T) {
		col.Case()
		// tiny programs too: listings shorter than the minimum height of the view;
		// half of the programs contain indirect jumps whose target the prompt decides
		rvFreeJalr = rapid.Bool().Draw(t, "freeJalrProgram")
		rvFreeBase = rapid.Bool().Draw(t, "freeBaseProgram")
		p := drawRVProgramMin(t, 1, 24)
		rvFreeJalr, rvFreeBase = false, false
		ui, code, err := newProgramUI(p)
		if err != nil {
			t.Fatalf("cannot build UI: %v\n  program %s", err, p)
		}
		var hist []string
		modes := map[string]bool{}
		rejected := 0
		screen := []int{5, 8, 12, 24, 40, 60}[uniformInt(t, 6, "screen")]
		lines := 2*code.Len() + code.NumInstr()

		oneLine := func(t *rapid.T, forced string) {
			{
				mode := ui.VerifModeName()
				modes[modeClass(mode)] = true
				line, class := drawLine(t, mode, lines)
				if forced != "" {
					line, class = forced, modeClass(mode)+"/forced/"+forced
				}
				answers := []string{}
				for i, n := 0, uniformInt(t, 3, "nAnswers"); i < n; i++ {
					menu := []string{"", "5", "xyz", "0x10", "-1", " ", "code", "code", "-129", "-256", "-32769", "-2147483649",
						"-9223372036854775809", "255", "256", "0x10000", "4294967296", "18446744073709551615", "18446744073709551616",
						"0xffffffffffffffffff", "0b101", "017", "+7", "1_000", "0x",
						// the largest pointers that keep every access below 2^64: stores then reach
						// the last 16-byte line of the address space
						"18446744073709551340", "0xfffffffffffffeec", "0xfffffffffffffff0", "18446744073709551600", "0xfffffffffffffff0"}
					a := menu[uniformInt(t, len(menu), "answer")]
					if a == "code" {
						// an address in or next to the code: instruction starts, the middle of
						// instructions, the end of the code and a little beyond
						v := rvCodeBase - 4 + uint64(uniformInt(t, 4*len(p.words)+12, "codeOff"))
						a = fmt.Sprintf([]string{"%d", "0x%x"}[uniformInt(t, 2, "codeFmt")], v)
						col.Class("answer/code-address")
					}
					answers = append(answers, a)
				}
				hist = append(hist, fmt.Sprintf("[%s] %q %q", mode, line, answers))
				err, out, crash := uiExec(ui, line, answers...)
				if crash != "" {
					t.Fatalf("input line %q in mode %s crashed the UI: %s\n  history %s\n  program %s", line, mode, crash, strings.Join(hist, " ; "), p)
				}
				if strings.Contains(out, "error:") {
					rejected++
				}
				col.Class(class)
				col.Nontrivial(class)
				if err != nil {
					if !errors.Is(err, consoleui.ErrQuit) || ui.VerifDepth() != 0 {
						t.Fatalf("processCommand(%q) in mode %s returned %v (depth %d)\n  history %s", line, mode, err, ui.VerifDepth(), strings.Join(hist, " ; "))
					}
					// the program would exit here: start again
					var nerr error
					ui, code, nerr = newProgramUI(p)
					if nerr != nil {
						t.Fatalf("cannot rebuild UI: %v", nerr)
					}
					hist = append(hist, "<restart>")
					return
				}
				if crash, rerr, _ := renderScreen(ui, screen); crash != "" {
					t.Fatalf("rendering the screen (%d lines) after %q in mode %s crashed: %s\n  history %s\n  program %s", screen, line, mode, crash, strings.Join(hist, " ; "), p)
				} else if rerr != nil {
					col.Class("render-error")
				}
			}
		}
		t.Repeat(map[string]func(*rapid.T){
			// three aliases: a generated line is three times as likely as a burst of steps
			"line":  func(t *rapid.T) { oneLine(t, "") },
			"line2": func(t *rapid.T) { oneLine(t, "") },
			"line3": func(t *rapid.T) { oneLine(t, "") },
			"reorder": func(t *rapid.T) {
				// a burst in the disassembler mode: a block move (header line to header
				// line) followed by bounds / move commands on every kind of line, so that
				// commands run against a listing that has just been rebuilt
				if modeClass(ui.VerifModeName()) != "app" {
					oneLine(t, "quit")
					return
				}
				var headers []int
				ln := 0
				for _, b := range code.Blocks() {
					headers = append(headers, ln)
					ln += b.Num() + 2
				}
				if len(headers) >= 2 {
					col.Case()
					oneLine(t, fmt.Sprintf("move %d %d", headers[uniformInt(t, len(headers), "fromBlock")], headers[uniformInt(t, len(headers), "toBlock")]))
				}
				for i, n := 0, 1+uniformInt(t, 4, "nAfter"); i < n && modeClass(ui.VerifModeName()) == "app"; i++ {
					col.Case()
					a, b := uniformInt(t, lines+1, "lineA"), uniformInt(t, lines+1, "lineB")
					if uniformInt(t, 2, "afterKind") == 0 {
						oneLine(t, fmt.Sprintf("bounds %d", a))
					} else {
						oneLine(t, fmt.Sprintf("move %d %d", a, b))
					}
				}
			},
			"steps": func(t *rapid.T) {
				// several emulation steps in a row so that execution gets somewhere
				if modeClass(ui.VerifModeName()) != "emulate" {
					oneLine(t, []string{"emulate", "entrypoint"}[uniformInt(t, 2, "toEmul")])
					return
				}
				for i, n := 0, 1+uniformInt(t, 8, "nSteps"); i < n && modeClass(ui.VerifModeName()) == "emulate"; i++ {
					col.Case()
					oneLine(t, []string{"s", "step", "f"}[uniformInt(t, 3, "stepKey")])
				}
			},
		})
		switch {
		case len(modes) >= 2 && rejected >= 1:
			col.Class("history/>=2-modes+rejected")
		case len(modes) >= 2:
			col.Class("history/>=2-modes")
		default:
			col.Class("history/one-mode")
		}
		if col.WantSample() {
			col.Sample(hist)
		} else {
			col.SkipSample()
		}
	})
}
