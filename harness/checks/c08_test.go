package checks

import (
	"fmt"
	"strings"
	"testing"

	"mltwist/internal/deps"
	"mltwist/internal/parser"
	"mltwist/pkg/model"
	"mltwist/verifharness/internal/ev"

	"pgregory.net/rapid"
)

func blocksString(bs []deps.Block) string {
	var sb strings.Builder
	for _, b := range bs {
		sb.WriteString("[")
		for _, in := range b.Instructions() {
			fmt.Fprintf(&sb, "%x ", uint64(in.Begin()))
		}
		sb.WriteString("] ")
	}
	return sb.String()
}

func expectedString(bs [][]*sIns) string {
	var sb strings.Builder
	for _, b := range bs {
		sb.WriteString("[")
		for _, in := range b {
			fmt.Fprintf(&sb, "%x ", in.addr)
		}
		sb.WriteString("] ")
	}
	return sb.String()
}

func TestC08(t *testing.T) {
	runWitnesses(t, "C08")
	col := ev.New("C08", "rapid: address-ordered synthetic instructions of variable length (1-8 bytes) in 1-6 groups with "+
		"0-5 gaps; instruction pointer writes of every shape (constant, foldable constant, conditional with two constant "+
		"targets of which one may be the next instruction, register-indirect, conditional with an indirect arm, jump to "+
		"next only); targets drawn from block starts, arbitrary instruction starts, mid-instruction, gap, before, behind and "+
		"end-of-code addresses and addresses beyond 2^32 whose low half is an instruction start or the next instruction; entry point likewise; plus the empty instruction list. Oracle: partition computed from the "+
		"generated description by the rule of the statement (cut after real jumps, at gaps, before constant targets and "+
		"the entry; fail iff entry or a constant target is not an instruction start). non-trivial = >=2 distinct cut "+
		"reasons in one code, or a failure caused by a jump target; distinct by program rendering")
	defer col.Flush()

	rapid.Check(t, func(t *rapid.T) {
		col.Case()
		if rapid.IntRange(0, 40).Draw(t, "emptyCode") == 0 {
			entry := uint64(rapid.IntRange(0, 100).Draw(t, "entry"))
			var err error
			if msg := catch(func() { _, err = deps.NewCode(model.Addr(entry), nil) }); msg != "" {
				t.Fatalf("NewCode(entry 0x%x, no instructions): %s", entry, msg)
			}
			if err == nil {
				t.Fatalf("NewCode(entry 0x%x, no instructions) succeeded although the entry point is not an instruction", entry)
			}
			col.Class("empty-code")
			return
		}
		p := drawProgramOpt(t, 6, 5, rapid.Bool().Draw(t, "wild"))
		want, reason := expectedBlocks(p.ins, p.entry)

		seq := p.parserSeq()
		if rapid.Bool().Draw(t, "shuffle") && len(seq) > 1 {
			// NewCode sorts its input; hand it over in a rotated order sometimes
			k := rapid.IntRange(1, len(seq)-1).Draw(t, "rot")
			seq = append(append([]parser.Instruction{}, seq[k:]...), seq[:k]...)
		}
		var code *deps.Code
		var err error
		if msg := catch(func() { code, err = deps.NewCode(model.Addr(p.entry), seq) }); msg != "" {
			t.Fatalf("NewCode: %s\n  program %s", msg, p)
		}
		if reason != "" {
			if err == nil {
				t.Fatalf("NewCode succeeded although %s\n  program %s", reason, p)
			}
			if strings.Contains(reason, "target") {
				col.Class("error/target")
				col.Nontrivial(p.String())
			} else {
				col.Class("error/entry")
			}
			return
		}
		if err != nil {
			t.Fatalf("NewCode failed (%v) although entry and all constant targets are instruction starts\n  program %s", err, p)
		}
		got := code.Blocks()
		if blocksString(got) != expectedString(want) {
			t.Fatalf("blocks differ:\n  got  %s\n  want %s\n  program %s", blocksString(got), expectedString(want), p)
		}
		if code.Len() != len(want) || code.NumInstr() != len(p.ins) || uint64(code.Entrypoint()) != p.entry {
			t.Fatalf("Len/NumInstr/Entrypoint inconsistent: %d %d %x\n  program %s", code.Len(), code.NumInstr(), uint64(code.Entrypoint()), p)
		}
		for i, b := range got {
			wb := want[i]
			var ln uint64
			for _, s := range wb {
				ln += uint64(s.length)
			}
			if uint64(b.Begin()) != wb[0].addr || uint64(b.End()) != wb[0].addr+ln || b.Num() != len(wb) || b.Idx() != i || uint64(b.Len()) != ln {
				t.Fatalf("block %d: Begin %x End %x Num %d Idx %d, want begin %x len %d num %d\n  program %s",
					i, uint64(b.Begin()), uint64(b.End()), b.Num(), b.Idx(), wb[0].addr, ln, len(wb), p)
			}
			for j, in := range b.Instructions() {
				if in.Idx() != j || in.String() != wb[j].text || uint64(in.OrigAddr()) != wb[j].addr {
					t.Fatalf("block %d instruction %d is %q idx %d, want %q\n  program %s", i, j, in.String(), in.Idx(), wb[j].text, p)
				}
			}
		}

		// classification: cut reasons
		reasons := map[string]bool{}
		flat := []*sIns{}
		for _, b := range want {
			flat = append(flat, b...)
		}
		targets := map[uint64]bool{}
		for _, s := range flat {
			for _, x := range s.ip {
				if x.isConst && x.addr != s.end() {
					targets[x.addr] = true
				}
			}
		}
		for i := 1; i < len(want); i++ {
			prev := want[i-1][len(want[i-1])-1]
			first := want[i][0]
			if prev.realJump() {
				reasons["jump"] = true
			}
			if prev.end() != first.addr {
				reasons["gap"] = true
			}
			if targets[first.addr] {
				reasons["target"] = true
			}
			if first.addr == p.entry {
				reasons["entry"] = true
			}
		}
		col.Class(fmt.Sprintf("ok/cut-reasons=%d", len(reasons)))
		if len(reasons) >= 2 {
			col.Nontrivial(p.String())
		}
		if col.WantSample() {
			col.Sample(map[string]string{"program": p.String(), "blocks": blocksString(got)})
		} else {
			col.SkipSample()
		}
	})
}
