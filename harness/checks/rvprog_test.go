package checks

import (
	"fmt"
	"math/big"
	"strings"

	"mltwist/internal/deps"
	"mltwist/internal/elf"
	"mltwist/internal/emulator"
	"mltwist/internal/exprtransform"
	"mltwist/internal/parser"
	"mltwist/internal/riscv"
	"mltwist/internal/state"
	"mltwist/internal/state/memory"
	"mltwist/pkg/expr"
	"mltwist/pkg/model"
	"mltwist/verifharness/internal/irsem"
	"mltwist/verifharness/internal/rvref"

	"pgregory.net/rapid"
)

const (
	rvCodeBase = 0x10000
	rvDataBase = 0x20000
	rvDataLen  = 96
)

var rv64ima = rvref.Cfg{XLEN: 64, M: true, A: true}

// rvProgram is a generated RV64IMA program with an initialised data window.
type rvProgram struct {
	words []uint32
	text  []string
	data  []byte
	entry uint64
	// bss is the number of zero bytes the image holds behind data (non-zero
	// only when the program is loaded through an ELF file).
	bss int
}

func (p *rvProgram) String() string {
	var sb strings.Builder
	for i, w := range p.words {
		fmt.Fprintf(&sb, "%x: %08x %s; ", rvCodeBase+4*i, w, p.text[i])
	}
	return sb.String()
}

func rvIns(name string) *rvref.Ins {
	in := rvref.Lookup(name, rv64ima)
	if in == nil {
		panic("unknown instruction " + name)
	}
	return in
}

func pickS(t *rapid.T, label string, xs ...string) string { return xs[uniformInt(t, len(xs), label)] }

// drawRVProgram draws a program of n instructions from templates which keep
// execution inside the image (apart from deliberately bad indirect targets).
func drawRVProgram(t *rapid.T, maxIns int) *rvProgram { return drawRVProgramMin(t, 4, maxIns) }

// rvFreeJalr makes drawRVProgramMin emit indirect jumps through registers x10-x12
// (never written by generated code) in about every sixth position.
var rvFreeJalr = false

// rvFreeBase makes drawRVProgramMin emit loads and stores through x13 (never
// written by generated code, offsets 0..7) in about every sixth position.
var rvFreeBase = false

// drawRVProgramMin draws a program of minIns..maxIns instructions.
func drawRVProgramMin(t *rapid.T, minIns, maxIns int) *rvProgram {
	n := minIns + uniformInt(t, maxIns-minIns+1, "n")
	p := &rvProgram{data: irsem.GenBytes(t, rvDataLen, "data")}
	emit := func(in *rvref.Ins, f rvref.Fields) {
		w := rvref.Enc(in, f)
		p.words = append(p.words, w)
		p.text = append(p.text, fmt.Sprintf("%s rd=%d rs1=%d rs2=%d imm=%d", in.Name, f.Rd, f.Rs1, f.Rs2, f.Imm))
	}
	lowReg := func(label string) uint32 { return uint32(1 + uniformInt(t, 7, label)) } // x1..x7
	srcReg := func(label string) uint32 { return uint32(uniformInt(t, 10, label)) }    // x0..x9
	target := func(from int, label string) int64 {
		// index of a target instruction in [0, n)
		j := uniformInt(t, n, label)
		if uniformInt(t, 3, label+"near") != 0 {
			j = from - 3 + uniformInt(t, 8, label+"d")
			if j < 0 {
				j = 0
			}
			if j >= n {
				j = n - 1
			}
		}
		return int64(j-from) * 4
	}
	for len(p.words) < n {
		i := len(p.words)
		tmpl := uniformInt(t, 20, "tmpl")
		if rvFreeJalr && uniformInt(t, 6, "freeJalr") == 0 {
			tmpl = 20
		}
		if rvFreeBase && uniformInt(t, 6, "freeBase") == 0 {
			tmpl = 21
		}
		switch tmpl {
		case 21:
			// load/store through x13, which generated code never writes: whoever answers
			// the emulator's question decides which memory is touched (offsets 0..7)
			name := pickS(t, "fbop", "sb", "sh", "sw", "sd", "lb", "lw", "ld", "sb")
			emit(rvIns(name), rvref.Fields{Rd: lowReg("fbrd"), Rs2: srcReg("fbrs2"), Rs1: 13, Imm: int64(uniformInt(t, 8, "fboff"))})
		case 20:
			// indirect jump through a register nothing may have written: whoever
			// answers the emulator's question decides where execution continues
			emit(rvIns("jalr"), rvref.Fields{Rd: uint32(uniformInt(t, 2, "fjrd")), Rs1: uint32(10 + uniformInt(t, 3, "fjrs")), Imm: int64(uniformInt(t, 9, "fjimm")) - 4})
		case 0, 1, 2:
			name := pickS(t, "rop", "add", "sub", "sll", "slt", "sltu", "xor", "srl", "sra", "or", "and", "addw", "subw",
				"sllw", "srlw", "sraw", "mul", "mulh", "mulhsu", "mulhu", "div", "divu", "rem", "remu", "mulw", "divw", "divuw", "remw", "remuw")
			emit(rvIns(name), rvref.Fields{Rd: lowReg("rd"), Rs1: srcReg("rs1"), Rs2: srcReg("rs2")})
		case 3, 4:
			name := pickS(t, "iop", "addi", "slti", "sltiu", "xori", "ori", "andi", "addiw")
			emit(rvIns(name), rvref.Fields{Rd: lowReg("rd"), Rs1: srcReg("rs1"), Imm: drawImm(t, 12, "imm")})
		case 5:
			name := pickS(t, "shop", "slli", "srli", "srai", "slliw", "srliw", "sraiw")
			in := rvIns(name)
			emit(in, rvref.Fields{Rd: lowReg("rd"), Rs1: srcReg("rs1"), Shamt: uint32(uniformInt(t, 1<<uint(in.ShamtBits), "shamt"))})
		case 6:
			name := pickS(t, "uop", "lui", "auipc")
			emit(rvIns(name), rvref.Fields{Rd: lowReg("rd"), Imm: drawImm(t, 32, "uimm") &^ 0xfff})
		case 7, 8, 9:
			name := pickS(t, "lop", "lb", "lh", "lw", "ld", "lbu", "lhu", "lwu")
			emit(rvIns(name), rvref.Fields{Rd: lowReg("rd"), Rs1: 8, Imm: int64(uniformInt(t, 150, "loff")) - 10})
		case 10, 11, 12:
			name := pickS(t, "sop", "sb", "sh", "sw", "sd")
			emit(rvIns(name), rvref.Fields{Rs2: srcReg("rs2"), Rs1: 8, Imm: int64(uniformInt(t, 150, "soff")) - 10})
		case 13:
			if n-len(p.words) < 2 {
				continue
			}
			sz := pickS(t, "asz", ".w", ".d")
			op := pickS(t, "aop", "lr", "sc", "amoswap", "amoadd", "amoxor", "amoand", "amoor", "amomin", "amomax", "amominu", "amomaxu")
			emit(rvIns("addi"), rvref.Fields{Rd: 9, Rs1: 8, Imm: int64(8 * uniformInt(t, 17, "aoff"))})
			emit(rvIns(op+sz), rvref.Fields{Rd: lowReg("rd"), Rs1: 9, Rs2: srcReg("rs2"), Aq: rapid.Bool().Draw(t, "aq"), Rl: rapid.Bool().Draw(t, "rl")})
		case 14, 15:
			name := pickS(t, "bop", "beq", "bne", "blt", "bge", "bltu", "bgeu")
			emit(rvIns(name), rvref.Fields{Rs1: srcReg("rs1"), Rs2: srcReg("rs2"), Imm: target(i, "bt")})
		case 16:
			emit(rvIns("jal"), rvref.Fields{Rd: uint32(uniformInt(t, 2, "jrd")), Imm: target(i, "jt")})
		case 17:
			if n-len(p.words) < 2 {
				continue
			}
			emit(rvIns("auipc"), rvref.Fields{Rd: 6, Imm: 0})
			off := target(i, "jrt")
			switch uniformInt(t, 12, "badTarget") {
			case 0:
				off += 2 // middle of an instruction
			case 1:
				off += 1 // bit 0 is cleared by jalr
			case 2:
				off = 2040 // outside of the code
			}
			emit(rvIns("jalr"), rvref.Fields{Rd: uint32(uniformInt(t, 2, "jrrd")), Rs1: 6, Imm: off})
		case 18:
			name := pickS(t, "cop", "csrrw", "csrrs", "csrrc", "csrrwi", "csrrsi", "csrrci")
			csr := []uint32{0x300, 0xc00, 0x7ff, 0x800, 0}[uniformInt(t, 5, "csr")]
			emit(rvIns(name), rvref.Fields{Rd: uint32(uniformInt(t, 8, "crd")), Rs1: srcReg("rs1"), Csr: csr, Uimm: uint32(uniformInt(t, 32, "uimm5"))})
		default:
			name := pickS(t, "nop", "fence", "fence.i", "ecall", "ebreak")
			emit(rvIns(name), rvref.Fields{Pred: uint32(uniformInt(t, 16, "pred")), Succ: uint32(uniformInt(t, 16, "succ"))})
		}
	}
	// most programs end with a backward jump so execution stays in the image
	// until the step budget is used up
	if uniformInt(t, 4, "closeLoop") != 0 {
		last := len(p.words) - 1
		back := uniformInt(t, last+1, "loopTo")
		f := rvref.Fields{Rd: 0, Imm: int64(back-last) * 4}
		p.words[last] = rvref.Enc(rvIns("jal"), f)
		p.text[last] = fmt.Sprintf("jal rd=0 imm=%d", f.Imm)
		// the replaced instruction may have been the second half of a template;
		// that is harmless (its first half is an ordinary instruction)
	}
	p.entry = rvCodeBase + 4*uint64(uniformInt(t, 3, "entryIdx"))
	if p.entry >= rvCodeBase+4*uint64(len(p.words)) {
		p.entry = rvCodeBase
	}
	return p
}

type rvImageBlock struct {
	begin uint64
	bytes []byte
}

func (b rvImageBlock) Begin() model.Addr { return model.Addr(b.begin) }
func (b rvImageBlock) Bytes() []byte     { return b.bytes }

func (p *rvProgram) codeBytes() []byte {
	bs := make([]byte, 0, 4*len(p.words))
	for _, w := range p.words {
		bs = append(bs, wordBytes(w)...)
	}
	return bs
}

// imageByte returns the byte of the program image at a, if any.
func (p *rvProgram) imageByte(a uint64) (byte, bool) {
	if a >= rvCodeBase && a < rvCodeBase+4*uint64(len(p.words)) {
		return p.codeBytes()[a-rvCodeBase], true
	}
	if a >= rvDataBase && a < rvDataBase+rvDataLen {
		return p.data[a-rvDataBase], true
	}
	if a >= rvDataBase+rvDataLen && a < rvDataBase+rvDataLen+uint64(p.bss) {
		return 0, true
	}
	return 0, false
}

// buildRVCode parses the program with the real front end and builds the code
// model (in-memory path: front end + constant folding as internal/parser does).
func buildRVCode(p *rvProgram) (*deps.Code, error) {
	seq, err := buildRVSeq(p)
	if err != nil {
		return nil, err
	}
	return deps.NewCode(model.Addr(p.entry), seq)
}

// buildRVSeq lifts the words of p with the real front end.
func buildRVSeq(p *rvProgram) ([]parser.Instruction, error) {
	prs, _ := rvParser(rv64ima)
	code := p.codeBytes()
	var seq []parser.Instruction
	for i := range p.words {
		addr := model.Addr(rvCodeBase + 4*i)
		ins, err := prs.Parse(addr, code[4*i:])
		if err != nil {
			return nil, fmt.Errorf("word %d: %w", i, err)
		}
		seq = append(seq, parser.Instruction{
			Type:    ins.Type,
			Addr:    addr,
			Bytes:   code[4*i : 4*i+4],
			Effects: exprtransform.EffectsApply(ins.Effects, exprtransform.ConstFold),
			Details: ins.Details,
		})
	}
	return seq, nil
}

// rvHarness runs the emulator and the reference machine in lock step.
type rvHarness struct {
	p    *rvProgram
	code *deps.Code
	emu  *emulator.Emulator
	st   *state.State
	ref  *rvref.Machine
	prov *rvProvider
	// lazy: registers are supplied by the provider on first read (mode B).
	lazy bool
	// known state for C04
	knownReg  map[expr.Key]bool
	knownByte map[uint64]bool
	problems  []string
	seed      uint64
	// csrKeys maps the register key the lifter uses for a CSR to its number.
	csrKeys map[expr.Key]uint32
	steps   int
	// lastTrace is the reference trace of the last successful step.
	lastTrace *rvref.Trace
}

// rvProvider is the instrumented state provider.
type rvProvider struct {
	h        *rvHarness
	regCalls []string
	memCalls []string
}

func (pr *rvProvider) Register(key expr.Key, w expr.Width) expr.Const {
	h := pr.h
	pr.regCalls = append(pr.regCalls, fmt.Sprintf("%s/%d", key, w))
	if h.knownReg[key] {
		h.problems = append(h.problems, fmt.Sprintf("provider asked for register %s which the emulator already knows", key))
	}
	h.knownReg[key] = true
	bs := make([]byte, w)
	for i := range bs {
		bs[i] = provByte(h.seed, "reg:"+key, uint64(i))
	}
	c := expr.NewConst(bs, w)
	// the supplied value (zero extended) becomes the register of the reference
	v := irsem.FromBytes(bs).Uint64()
	if n, ok := xregNum(key); ok {
		h.ref.X[n] = v
	} else if num, ok := h.csrKeys[key]; ok {
		h.ref.CSR[num] = v
	} else {
		h.problems = append(h.problems, fmt.Sprintf("provider asked for unknown register %q", key))
	}
	return c
}

func (pr *rvProvider) Memory(key expr.Key, addr model.Addr, w expr.Width) expr.Const {
	h := pr.h
	pr.memCalls = append(pr.memCalls, fmt.Sprintf("%x/%d", uint64(addr), w))
	if key != riscv.MemoryKey {
		h.problems = append(h.problems, fmt.Sprintf("provider asked for memory %q", key))
	}
	bs := make([]byte, w)
	for i := range bs {
		a := uint64(addr) + uint64(i)
		if h.knownByte[a] {
			h.problems = append(h.problems, fmt.Sprintf("provider asked for memory byte %x which the emulator already knows", a))
		}
		h.knownByte[a] = true
		bs[i] = provByte(h.seed, key, a)
	}
	return expr.NewConst(bs, w)
}

// newRVHarness builds emulator and reference for program p.
func newRVHarness(t *rapid.T, p *rvProgram, lazy bool) (*rvHarness, error) {
	return newRVHarnessVia(t, p, lazy, false)
}

// loadViaELF wraps p into an ELF executable, writes it to the scratch
// directory and loads it exactly as cmd/mltwist/main.go does: elf.NewParser,
// MachineCode, Memory, parser.Parse, deps.NewCode.
func loadViaELF(p *rvProgram) (*deps.Code, []memory.ByteBlock, error) {
	m := programELF(p)
	file, _ := m.Bytes()
	name := writeScratch(file)
	ep, err := elf.NewParser(name)
	if err != nil {
		return nil, nil, err
	}
	defer ep.Close()
	codeMem, err := ep.MachineCode()
	if err != nil {
		return nil, nil, err
	}
	mem, err := ep.Memory()
	if err != nil {
		return nil, nil, err
	}
	prs, _ := rvParser(rv64ima)
	ins, err := parser.Parse(codeMem, prs)
	if err != nil {
		return nil, nil, err
	}
	code, err := deps.NewCode(ep.Entrypoint(), ins)
	if err != nil {
		return nil, nil, err
	}
	blocks := make([]memory.ByteBlock, len(mem.Blocks))
	for i, b := range mem.Blocks {
		blocks[i] = b
	}
	return code, blocks, nil
}

// newRVHarnessVia builds emulator and reference; with viaELF the program takes
// the whole path of the real tool from an ELF file.
func newRVHarnessVia(t *rapid.T, p *rvProgram, lazy bool, viaELF bool) (*rvHarness, error) {
	var code *deps.Code
	var elfBlocks []memory.ByteBlock
	var err error
	if viaELF {
		p.bss = 64
		code, elfBlocks, err = loadViaELF(p)
	} else {
		code, err = buildRVCode(p)
	}
	if err != nil {
		return nil, err
	}
	h := &rvHarness{p: p, code: code, lazy: lazy, knownReg: map[expr.Key]bool{}, knownByte: map[uint64]bool{},
		csrKeys: map[expr.Key]uint32{}, seed: rapid.Uint64().Draw(t, "stateSeed")}
	h.prov = &rvProvider{h: h}

	// CSR keys used by the program
	prs, _ := rvParser(rv64ima)
	for i, w := range p.words {
		in := rvref.Decode(w, rv64ima)
		if in.Fmt != rvref.FmtCSR && in.Fmt != rvref.FmtCSRI {
			continue
		}
		ins, _ := prs.Parse(model.Addr(rvCodeBase+4*i), wordBytes(w))
		for _, ef := range ins.Effects {
			if rs, ok := ef.(expr.RegStore); ok {
				if _, isX := xregNum(rs.Key()); !isX && rs.Key() != expr.IPKey {
					h.csrKeys[rs.Key()] = rvref.Dec(in, w).Csr
				}
			}
		}
	}

	// memory layering exactly as cmd/mltwist/main.go: read-only image under a sparse layer
	blocks := []memory.ByteBlock{
		rvImageBlock{rvCodeBase, p.codeBytes()},
		rvImageBlock{rvDataBase, append([]byte{}, p.data...)},
	}
	if viaELF {
		blocks = elfBlocks
	}
	byteMem, err := memory.NewBytes(blocks)
	if err != nil {
		return nil, err
	}
	h.st = &state.State{Regs: state.NewRegMap(), Mems: memory.MemMap{riscv.MemoryKey: memory.NewOverlay(byteMem, memory.NewSparse())}}
	for a := uint64(rvCodeBase); a < rvCodeBase+4*uint64(len(p.words)); a++ {
		h.knownByte[a] = true
	}
	for a := uint64(rvDataBase); a < rvDataBase+rvDataLen+uint64(p.bss); a++ {
		h.knownByte[a] = true
	}

	h.ref = &rvref.Machine{Cfg: rv64ima, PC: p.entry, CSR: map[uint32]uint64{}}
	h.ref.Mem = &rvref.MapMem{Default: func(a uint64) byte {
		if b, ok := p.imageByte(a); ok {
			return b
		}
		return provByte(h.seed, riscv.MemoryKey, a)
	}}
	if !lazy {
		for r := 1; r < 32; r++ {
			v := drawRegVal(t, 64, fmt.Sprintf("x%d", r))
			switch r {
			case 8:
				v = rvDataBase
			case 9:
				v = rvDataBase + 8
			}
			h.ref.X[r] = v
			key := expr.Key(fmt.Sprintf("x%d", r))
			h.st.Regs.Store(key, expr.ConstFromUint(v), 8)
			h.knownReg[key] = true
		}
	} else {
		// the data pointers must point into the image for the templates to make
		// sense; every other register is supplied on demand
		for _, r := range []int{8, 9} {
			v := uint64(rvDataBase + 8*(r-8))
			h.ref.X[r] = v
			key := expr.Key(fmt.Sprintf("x%d", r))
			h.st.Regs.Store(key, expr.ConstFromUint(v), 8)
			h.knownReg[key] = true
		}
	}
	if msg := catch(func() { h.emu = emulator.New(code, model.Addr(p.entry), h.prov, h.st) }); msg != "" {
		return nil, fmt.Errorf("emulator.New: %s", msg)
	}
	return h, nil
}

// regConst reads register key of the emulator state as a number.
func (h *rvHarness) regConst(key expr.Key) (uint64, bool, string) {
	e, ok := h.st.Regs.Load(key, 8)
	if !ok {
		return 0, false, ""
	}
	c, isC := e.(expr.Const)
	if !isC {
		return 0, true, fmt.Sprintf("register %s holds a non-constant expression %s", key, irsem.String(e))
	}
	return irsem.FromBytes(c.Bytes()).Uint64(), true, ""
}

func constU64(c expr.Const) uint64 {
	v := irsem.FromBytes(c.Bytes())
	return new(bigIntAlias).And(v, maxU64).Uint64()
}

// step performs one lock step; it returns (done, failure).
func (h *rvHarness) step(checkReport bool) (bool, string) {
	pc := h.ref.PC
	idx := -1
	if pc >= rvCodeBase && pc < rvCodeBase+4*uint64(len(h.p.words)) && (pc-rvCodeBase)%4 == 0 {
		idx = int(pc-rvCodeBase) / 4
	}
	var st *emulator.Step
	var err error
	nReg, nMem := len(h.prov.regCalls), len(h.prov.memCalls)
	if msg := catch(func() { st, err = h.emu.Step() }); msg != "" {
		return true, fmt.Sprintf("Step at pc %x crashed: %s", pc, msg)
	}
	h.steps++
	if idx < 0 {
		if err == nil {
			return true, fmt.Sprintf("Step succeeded although the instruction pointer %x is not the start of an instruction", pc)
		}
		return true, ""
	}
	if err != nil {
		return true, fmt.Sprintf("Step failed at pc %x (instruction %d: %s): %v", pc, idx, h.p.text[idx], err)
	}
	// registers supplied during this step became known before the reference runs
	_ = nReg
	_ = nMem
	tr := h.ref.Step(h.p.words[idx])
	h.lastTrace = tr
	for _, s := range tr.Stores {
		for i := 0; i < s.Width; i++ {
			h.knownByte[s.Addr+uint64(i)] = true
		}
	}
	for r := range tr.RegsWrite {
		h.knownReg[expr.Key(fmt.Sprintf("x%d", r))] = true
	}
	for key, num := range h.csrKeys {
		if _, ok := tr.CSRWrite[num]; ok {
			h.knownReg[key] = true
		}
	}
	where := fmt.Sprintf("after step %d (pc %x: %s)", h.steps, pc, h.p.text[idx])

	// instruction pointer
	var ip uint64
	if msg := catch(func() { ip = uint64(h.emu.MustIP()) }); msg != "" {
		return true, fmt.Sprintf("%s: MustIP: %s", where, msg)
	}
	if ip != h.ref.PC {
		return true, fmt.Sprintf("%s: instruction pointer %x, reference %x", where, ip, h.ref.PC)
	}
	// registers
	for r := 1; r < 32; r++ {
		key := expr.Key(fmt.Sprintf("x%d", r))
		v, ok, msg := h.regConst(key)
		if msg != "" {
			return true, where + ": " + msg
		}
		if !ok {
			if h.knownReg[key] {
				return true, fmt.Sprintf("%s: register %s vanished", where, key)
			}
			continue
		}
		if v != h.ref.X[r] {
			return true, fmt.Sprintf("%s: %s = %x, reference %x", where, key, v, h.ref.X[r])
		}
	}
	if _, ok, _ := h.regConst("x0"); ok {
		return true, where + ": register x0 exists in the state"
	}
	for key, num := range h.csrKeys {
		v, ok, msg := h.regConst(key)
		if msg != "" {
			return true, where + ": " + msg
		}
		if ok && v != h.ref.CSR[num] {
			return true, fmt.Sprintf("%s: CSR %x (%s) = %x, reference %x", where, num, key, v, h.ref.CSR[num])
		}
	}
	// memory: every byte the reference has written plus the data window
	mm := h.ref.Mem.(*rvref.MapMem)
	check := func(a uint64) string {
		e, ok := h.st.Mems.Load(riscv.MemoryKey, model.Addr(a), 1)
		if !ok {
			if _, written := mm.M[a]; written {
				return fmt.Sprintf("%s: memory byte %x written by the program cannot be loaded", where, a)
			}
			return ""
		}
		c, isC := exprtransform.ConstFold(e).(expr.Const)
		if !isC {
			return fmt.Sprintf("%s: memory byte %x is not constant", where, a)
		}
		if got, want := byte(constU64(c)), h.ref.Mem.Read(a); got != want {
			return fmt.Sprintf("%s: memory byte %x = %02x, reference %02x", where, a, got, want)
		}
		return ""
	}
	for a := range mm.M {
		if msg := check(a); msg != "" {
			return true, msg
		}
	}
	for a := uint64(rvDataBase - 16); a < rvDataBase+rvDataLen+16; a++ {
		if msg := check(a); msg != "" {
			return true, msg
		}
	}

	if checkReport {
		if msg := h.checkReport(st, tr, idx); msg != "" {
			return true, where + ": step report: " + msg
		}
	}
	return false, ""
}

// checkReport compares the step report with the reference trace.
func (h *rvHarness) checkReport(st *emulator.Step, tr *rvref.Trace, idx int) string {
	in := tr.Ins
	isCSR := in.Fmt == rvref.FmtCSR || in.Fmt == rvref.FmtCSRI
	f := rvref.Dec(in, h.p.words[idx])
	// register loads
	seen := map[uint32]bool{}
	for key, c := range st.RegLoads {
		if n, ok := xregNum(key); ok {
			want, read := tr.RegsRead[uint32(n)]
			if !read {
				return fmt.Sprintf("reports a read of %s which the instruction does not read", key)
			}
			mask := ^uint64(0)
			if c.Width() < 8 {
				mask = 1<<(8*uint(c.Width())) - 1
			}
			if constU64(c) != want&mask {
				return fmt.Sprintf("reports %s = %x (width %d), reference value %x", key, constU64(c), c.Width(), want)
			}
			seen[uint32(n)] = true
			continue
		}
		num, ok := h.csrKeys[key]
		if !ok || !isCSR || num != f.Csr {
			return fmt.Sprintf("reports a read of register %s", key)
		}
		if constU64(c) != tr.CSRRead[num] {
			return fmt.Sprintf("reports CSR %s = %x, reference %x", key, constU64(c), tr.CSRRead[num])
		}
	}
	// Constant folding may remove a register from the lifted effects when the
	// outcome cannot depend on it (e.g. division by x0); the report must list
	// exactly the registers the (folded) effects of the instruction mention.
	mentionedRegs, mentionsMem := h.mentioned(idx)
	for r := range tr.RegsRead {
		if !seen[r] && mentionedRegs[expr.Key(fmt.Sprintf("x%d", r))] {
			return fmt.Sprintf("does not report the read of x%d", r)
		}
	}
	for key := range mentionedRegs {
		if _, ok := st.RegLoads[key]; !ok {
			return fmt.Sprintf("does not report the read of %s which the effects use", key)
		}
	}
	// register stores
	seenW := map[uint32]bool{}
	ipStored := false
	for key, c := range st.RegStores {
		if key == expr.IPKey {
			ipStored = true
			if constU64(c) != tr.NextPC && tr.Jumped {
				return fmt.Sprintf("reports instruction pointer %x, reference %x", constU64(c), tr.NextPC)
			}
			continue
		}
		if n, ok := xregNum(key); ok {
			want, w := tr.RegsWrite[uint32(n)]
			if !w || constU64(c) != want {
				return fmt.Sprintf("reports write %s = %x, reference (written %v) %x", key, constU64(c), w, want)
			}
			seenW[uint32(n)] = true
			continue
		}
		num, ok := h.csrKeys[key]
		if !ok || !isCSR || num != f.Csr || constU64(c) != tr.CSRWrite[num] {
			return fmt.Sprintf("reports write of register %s = %x", key, constU64(c))
		}
	}
	for r := range tr.RegsWrite {
		if !seenW[r] {
			return fmt.Sprintf("does not report the write of x%d", r)
		}
	}
	if ipStored != tr.Jumped {
		return fmt.Sprintf("instruction pointer write reported=%v, instruction is a jump/branch=%v", ipStored, tr.Jumped)
	}
	// memory accesses as sets
	set := func(as []emulator.MemAccess) map[string]bool {
		m := map[string]bool{}
		for _, a := range as {
			m[fmt.Sprintf("%s@%x/%d=%x", a.Key, uint64(a.Addr), a.Width(), constU64(a.Value))] = true
		}
		return m
	}
	refset := func(as []rvref.MemAccess) map[string]bool {
		m := map[string]bool{}
		for _, a := range as {
			m[fmt.Sprintf("%s@%x/%d=%x", riscv.MemoryKey, a.Addr, a.Width, a.Value)] = true
		}
		return m
	}
	if g, w := fmt.Sprint(set(st.MemLoads)), fmt.Sprint(refset(tr.Loads)); g != w && (mentionsMem || len(st.MemLoads) > 0) {
		return fmt.Sprintf("memory loads %s, reference %s", g, w)
	}
	if g, w := fmt.Sprint(set(st.MemStores)), fmt.Sprint(refset(tr.Stores)); g != w {
		return fmt.Sprintf("memory stores %s, reference %s", g, w)
	}
	return ""
}

type bigIntAlias = big.Int

var maxU64 = new(big.Int).SetUint64(^uint64(0))

// mentioned returns the register keys and whether any memory load occurs in
// the effects of instruction idx as the code model holds them.
func (h *rvHarness) mentioned(idx int) (map[expr.Key]bool, bool) {
	regs, mem := map[expr.Key]bool{}, false
	addr := model.Addr(rvCodeBase + 4*idx)
	blk, ok := h.code.Address(addr)
	if !ok {
		return regs, mem
	}
	ins, ok := blk.Address(addr)
	if !ok {
		return regs, mem
	}
	for _, e := range exprtransform.ExprsMany(ins.Effects()) {
		irsem.Walk(e, func(x expr.Expr) {
			switch n := x.(type) {
			case expr.RegLoad:
				regs[n.Key()] = true
			case expr.MemLoad:
				mem = true
			}
		})
	}
	return regs, mem
}
