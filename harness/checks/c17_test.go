package checks

import (
	"fmt"
	"sort"
	"strings"
	"testing"

	"mltwist/internal/state/interval"
	"mltwist/verifharness/internal/ev"

	"golang.org/x/exp/constraints"
	"pgregory.net/rapid"
)

// c17Universe is a sorted list of candidate interval end points. An interval
// set is modelled as a boolean per elementary segment [u[i], u[i+1]).
type c17Universe[T constraints.Integer] []T

func c17Model[T constraints.Integer](u c17Universe[T], ivs [][2]int) []bool {
	m := make([]bool, len(u)-1)
	for _, iv := range ivs {
		for k := iv[0]; k < iv[1]; k++ {
			m[k] = true
		}
	}
	return m
}

func c17String[T constraints.Integer](m interval.Map[T]) string {
	var sb strings.Builder
	for _, iv := range m.Intervals() {
		fmt.Fprintf(&sb, "[%v,%v)", iv.Begin(), iv.End())
	}
	if sb.Len() == 0 {
		return "{}"
	}
	return sb.String()
}

// c17Check verifies that m is in normal form and denotes exactly want.
func c17Check[T constraints.Integer](u c17Universe[T], m interval.Map[T], want []bool) string {
	ivs := m.Intervals()
	if m.Len() != len(ivs) {
		return "Len() differs from len(Intervals())"
	}
	got := make([]bool, len(u)-1)
	for i, iv := range ivs {
		if !(iv.Begin() < iv.End()) {
			return fmt.Sprintf("interval %d is empty or reversed", i)
		}
		if i > 0 && !(ivs[i-1].End() < iv.Begin()) {
			return fmt.Sprintf("intervals %d and %d are unsorted, overlapping or adjacent", i-1, i)
		}
		if m.Index(i) != iv {
			return "Index(i) differs from Intervals()[i]"
		}
		b := sort.Search(len(u), func(k int) bool { return u[k] >= iv.Begin() })
		e := sort.Search(len(u), func(k int) bool { return u[k] >= iv.End() })
		if b >= len(u) || u[b] != iv.Begin() || e >= len(u) || u[e] != iv.End() {
			return fmt.Sprintf("interval %d has an end point that was never given", i)
		}
		for k := b; k < e; k++ {
			got[k] = true
		}
	}
	for k := range want {
		if got[k] != want[k] {
			return fmt.Sprintf("point %v: got member=%v want %v", u[k], got[k], want[k])
		}
	}
	return ""
}

type c17Case[T constraints.Integer] struct {
	u    c17Universe[T]
	a, b [][2]int
}

func c17DrawList(t *rapid.T, n int, label string, maxIv int) [][2]int {
	cnt := rapid.IntRange(0, maxIv).Draw(t, label+"_n")
	ivs := make([][2]int, 0, cnt)
	for i := 0; i < cnt; i++ {
		b := rapid.IntRange(0, n-2).Draw(t, label+"_b")
		var e int
		if rapid.IntRange(0, 2).Draw(t, label+"_short") == 0 {
			e = b + 1
		} else {
			e = rapid.IntRange(b+1, n-1).Draw(t, label+"_e")
		}
		ivs = append(ivs, [2]int{b, e})
	}
	return ivs
}

func c17Intervals[T constraints.Integer](u c17Universe[T], ivs [][2]int) []interval.Interval[T] {
	out := make([]interval.Interval[T], len(ivs))
	for i, iv := range ivs {
		out[i] = interval.New(u[iv[0]], u[iv[1]])
	}
	return out
}

func c17Run[T constraints.Integer](t *rapid.T, col *ev.Collector, u c17Universe[T], typ string) {
	n := len(u)
	a := c17DrawList(t, n, "a", 8)
	b := c17DrawList(t, n, "b", 8)
	col.Case()

	ma, mb := c17Model(u, a), c17Model(u, b)
	desc := fmt.Sprintf("%s a=%v b=%v over %v", typ, a, b, u)

	var A, B interval.Map[T]
	if msg := catch(func() { A = interval.NewMap(c17Intervals(u, a)...) }); msg != "" {
		t.Fatalf("NewMap(a) %s: %s", desc, msg)
	}
	if msg := catch(func() { B = interval.NewMap(c17Intervals(u, b)...) }); msg != "" {
		t.Fatalf("NewMap(b) %s: %s", desc, msg)
	}
	if msg := c17Check(u, A, ma); msg != "" {
		t.Fatalf("NewMap(a)=%s wrong: %s (%s)", c17String(A), msg, desc)
	}
	if msg := c17Check(u, B, mb); msg != "" {
		t.Fatalf("NewMap(b)=%s wrong: %s (%s)", c17String(B), msg, desc)
	}
	snapA, snapB := c17String(A), c17String(B)

	type opT struct {
		name string
		f    func(x, y interval.Map[T]) interval.Map[T]
		m    func(x, y bool) bool
	}
	ops := []opT{
		{"union", interval.MapUnion[T], func(x, y bool) bool { return x || y }},
		{"complement", interval.MapComplement[T], func(x, y bool) bool { return x && !y }},
		{"intersect", interval.MapIntersect[T], func(x, y bool) bool { return x && y }},
	}
	for _, op := range ops {
		for dir := 0; dir < 2; dir++ {
			X, Y, mx, my := A, B, ma, mb
			if dir == 1 {
				X, Y, mx, my = B, A, mb, ma
			}
			want := make([]bool, len(mx))
			for k := range want {
				want[k] = op.m(mx[k], my[k])
			}
			var R interval.Map[T]
			if msg := catch(func() { R = op.f(X, Y) }); msg != "" {
				t.Fatalf("%s(%s, %s): %s", op.name, c17String(X), c17String(Y), msg)
			}
			if msg := c17Check(u, R, want); msg != "" {
				t.Fatalf("%s(%s, %s) = %s wrong: %s", op.name, c17String(X), c17String(Y), c17String(R), msg)
			}
			if c17String(A) != snapA || c17String(B) != snapB {
				t.Fatalf("%s(%s, %s) modified an operand: now %s, %s", op.name, snapA, snapB, c17String(A), c17String(B))
			}
		}
	}

	// Results are ordinary sets: feed them back into further operations (also
	// with themselves) and make sure no later operation changes an earlier result.
	type pooled struct {
		m    interval.Map[T]
		want []bool
		desc string
	}
	pool := []pooled{{A, ma, "a"}, {B, mb, "b"}}
	for i, n := 0, rapid.IntRange(0, 5).Draw(t, "chain"); i < n; i++ {
		op := ops[rapid.IntRange(0, len(ops)-1).Draw(t, "chainOp")]
		x := pool[rapid.IntRange(0, len(pool)-1).Draw(t, "chainX")]
		y := pool[rapid.IntRange(0, len(pool)-1).Draw(t, "chainY")]
		want := make([]bool, len(x.want))
		for k := range want {
			want[k] = op.m(x.want[k], y.want[k])
		}
		d := fmt.Sprintf("%s(%s, %s)", op.name, x.desc, y.desc)
		var R interval.Map[T]
		if msg := catch(func() { R = op.f(x.m, y.m) }); msg != "" {
			t.Fatalf("%s with %s: %s", d, desc, msg)
		}
		if msg := c17Check(u, R, want); msg != "" {
			t.Fatalf("%s = %s wrong: %s (%s)", d, c17String(R), msg, desc)
		}
		pool = append(pool, pooled{R, want, d})
		col.Class("chained-operation")
	}
	for _, x := range pool {
		if msg := c17Check(u, x.m, x.want); msg != "" {
			t.Fatalf("%s changed after later operations: now %s: %s (%s)", x.desc, c17String(x.m), msg, desc)
		}
	}

	// classification
	spans := func(x, y interval.Map[T]) bool {
		for _, iv := range x.Intervals() {
			cnt := 0
			for _, jv := range y.Intervals() {
				if jv.Begin() < iv.End() && iv.Begin() < jv.End() {
					cnt++
				}
			}
			if cnt >= 2 {
				return true
			}
		}
		return false
	}
	nontriv := false
	switch {
	case A.Len() > 0 && B.Len() > 0 && (spans(A, B) || spans(B, A)):
		col.Class(typ + "/spanning")
		nontriv = true
	case (A.Len() == 0 && B.Len() >= 2) || (B.Len() == 0 && A.Len() >= 2):
		col.Class(typ + "/empty-vs-many")
		nontriv = true
	case A.Len() == 0 || B.Len() == 0:
		col.Class(typ + "/some-empty")
	default:
		col.Class(typ + "/simple")
	}
	if nontriv {
		col.Nontrivial(desc)
	}
	if col.WantSample() {
		col.Sample(map[string]string{"type": typ, "a": snapA, "b": snapB,
			"a_minus_b": c17String(interval.MapComplement(A, B))})
	} else {
		col.SkipSample()
	}
}

func TestC17(t *testing.T) {
	runWitnesses(t, "C17")
	col := ev.New("C17", "rapid: two lists of 0-8 non-empty intervals with end points drawn from a small universe "+
		"(40-point grid incl. 0,1 and 2^64-2,2^64-1 for uint64; 24 points incl. -128 and 127 for int8) so that overlap, "+
		"adjacency, containment and duplicates are the norm; oracle = boolean membership per elementary segment; "+
		"NewMap, MapUnion, MapComplement, MapIntersect (both operand orders) must succeed, be in normal form, equal "+
		"the set operation and leave operands unchanged; then up to 5 further operations on a pool of operands and earlier "+
		"results (a result combined with itself or its operands), every pooled set re-checked at the end. non-trivial = both operands non-empty with an interval of "+
		"one spanning >=2 of the other, or one operand empty and the other >=2 intervals; distinct by operand lists")
	defer col.Flush()

	u64 := c17Universe[uint64]{0, 1, 2, 3, 5, 6, 7, 8, 10, 12, 15, 16, 17, 20, 24, 25, 26, 30, 31, 32, 33, 40, 41,
		50, 63, 64, 65, 100, 127, 128, 255, 256, 1000, 1 << 31, 1 << 32, 1 << 63, 1<<63 + 1, 1<<64 - 3, 1<<64 - 2, 1<<64 - 1}
	i8 := c17Universe[int8]{-128, -127, -126, -100, -64, -10, -3, -2, -1, 0, 1, 2, 3, 4, 5, 10, 20, 50, 64, 100, 125, 126, 127}

	rapid.Check(t, func(t *rapid.T) {
		if rapid.IntRange(0, 3).Draw(t, "typ") == 0 {
			c17Run(t, col, i8, "int8")
		} else {
			c17Run(t, col, u64, "uint64")
		}
	})
}
