package checks

import (
	"bytes"
	"encoding/binary"
	"fmt"
	"os"
	"os/exec"
	"path/filepath"
	"strings"
	"sync"
	"testing"
	"time"

	"mltwist/internal/consoleui/disassemble"
	"mltwist/internal/deps"
	"mltwist/internal/elf"
	"mltwist/internal/parser"
	"mltwist/verifharness/internal/elfgen"
	"mltwist/verifharness/internal/ev"
	"mltwist/verifharness/internal/ptyrun"

	"pgregory.net/rapid"
)

var (
	binOnce sync.Once
	binPath string
	binErr  string
)

func repoDir() string {
	if d := os.Getenv("VERIF_REPO"); d != "" {
		return d
	}
	return "/repo"
}

// mltwistBinary builds the real, unguarded program once per process.
func mltwistBinary() (string, string) {
	binOnce.Do(func() {
		binPath = filepath.Join(scratchDir(), "mltwist-bin")
		cmd := exec.Command("go", "build", "-o", binPath, "./cmd/mltwist")
		cmd.Dir = repoDir()
		cmd.Env = append(os.Environ(), "GOFLAGS=-mod=mod", "GOPROXY=off", "GOSUMDB=off", "GOTOOLCHAIN=local", "CGO_ENABLED=0")
		if out, err := cmd.CombinedOutput(); err != nil {
			binErr = fmt.Sprintf("go build ./cmd/mltwist: %v\n%s", err, out)
		}
	})
	return binPath, binErr
}

// programELF wraps a generated RV64 program into an executable ELF model.
func programELF(p *rvProgram) *elfgen.Model {
	m := &elfgen.Model{Class64: true, Type: elfgen.ETExec, Machine: elfgen.EMRiscV, Entry: p.entry}
	m.Segments = make([]elfgen.Segment, 2)
	po := m.PayloadOff()
	code := p.codeBytes()
	m.Payload = append(append([]byte{}, code...), p.data...)
	m.Segments[0] = elfgen.Segment{Type: elfgen.PTLoad, Flags: 5, Off: po, Vaddr: rvCodeBase, Filesz: uint64(len(code)), Memsz: uint64(len(code))}
	m.Segments[1] = elfgen.Segment{Type: elfgen.PTLoad, Flags: 6, Off: po + uint64(len(code)), Vaddr: rvDataBase, Filesz: uint64(len(p.data)), Memsz: uint64(len(p.data)) + 64}
	m.Sections = []elfgen.Section{
		{Name: ".text", Type: elfgen.SHTProgbits, Flags: elfgen.SHFAlloc | elfgen.SHFExecinstr, Addr: rvCodeBase, Off: po, Size: uint64(len(code))},
		{Name: ".data", Type: elfgen.SHTProgbits, Flags: elfgen.SHFAlloc | elfgen.SHFWrite, Addr: rvDataBase, Off: po + uint64(len(code)), Size: uint64(len(p.data))},
		{Name: ".bss", Type: elfgen.SHTNobits, Flags: elfgen.SHFAlloc | elfgen.SHFWrite, Addr: rvDataBase + uint64(len(p.data)), Off: po + uint64(len(m.Payload)), Size: 64},
	}
	return m
}

// maxBSS scans the program headers of (possibly corrupted) file bytes and
// returns the largest memsz-filesz of a PT_LOAD entry the loader would have to
// allocate, interpreting the header the way the ELF specification says.
func maxBSS(bs []byte) uint64 {
	if len(bs) < 52 || !bytes.Equal(bs[:4], []byte{0x7f, 'E', 'L', 'F'}) {
		return 0
	}
	var bo binary.ByteOrder = binary.LittleEndian
	if bs[5] == 2 {
		bo = binary.BigEndian
	}
	var phoff uint64
	var phentsize, phnum int
	switch bs[4] {
	case 1:
		phoff = uint64(bo.Uint32(bs[28:]))
		phentsize, phnum = int(bo.Uint16(bs[42:])), int(bo.Uint16(bs[44:]))
	case 2:
		if len(bs) < 64 {
			return 0
		}
		phoff = bo.Uint64(bs[32:])
		phentsize, phnum = int(bo.Uint16(bs[54:])), int(bo.Uint16(bs[56:]))
	default:
		return 0
	}
	var max uint64
	for i := 0; i < phnum; i++ {
		o := phoff + uint64(i*phentsize)
		if o+56 > uint64(len(bs)) && bs[4] == 2 || o+32 > uint64(len(bs)) {
			break
		}
		e := bs[o:]
		if bo.Uint32(e) != elfgen.PTLoad {
			continue
		}
		var filesz, memsz uint64
		if bs[4] == 2 {
			filesz, memsz = bo.Uint64(e[32:]), bo.Uint64(e[40:])
		} else {
			filesz, memsz = uint64(bo.Uint32(e[16:])), uint64(bo.Uint32(e[20:]))
		}
		// the loader reads at most the bytes present in the file
		if filesz > uint64(len(bs)) {
			filesz = uint64(len(bs))
		}
		if memsz > filesz && memsz-filesz > max {
			max = memsz - filesz
		}
	}
	return max
}

const bssLimit = 8 << 20

// startupInProcess runs the start-up pipeline of cmd/mltwist/main.go in
// process and reports the stage reached and a panic, if any.
func startupInProcess(name string) (stage string, crash string) {
	stage = "open"
	crash = catch(func() {
		p, err := elf.NewParser(name)
		if err != nil {
			return
		}
		defer p.Close()
		stage = "machinecode"
		code, err := p.MachineCode()
		if err != nil {
			return
		}
		stage = "memory"
		mem, err := p.Memory()
		if err != nil {
			return
		}
		_ = mem
		stage = "parse"
		prs, _ := rvParser(rv64ima)
		ins, err := parser.Parse(code, prs)
		if err != nil {
			return
		}
		stage = "codemodel"
		c, err := deps.NewCode(p.Entrypoint(), ins)
		if err != nil {
			return
		}
		stage = "ui"
		_ = disassemble.New(c, nil)
	})
	return stage, crash
}

type c26Input struct {
	desc  string
	bytes []byte
	// kind: "file", "missing", "dir"
	kind  string
	valid bool
}

func drawStartupInput(t *rapid.T) c26Input {
	p := drawRVProgram(t, 24)
	m := programELF(p)
	in := c26Input{kind: "file", valid: true, desc: "valid program"}
	mutate := func(desc string) { in.valid = false; in.desc = desc }
	pre := uniformInt(t, 24, "modelMutation")
	switch pre {
	case 0:
		m.Sections = m.Sections[1:] // no executable section
		mutate("no executable section")
	case 1:
		m.Entry = p.entry + 2
		mutate("entry in the middle of an instruction")
	case 2:
		m.Entry = 0x999999
		mutate("entry outside of the code")
	case 3:
		copy(m.Payload[4*uniformInt(t, len(p.words), "badIdx"):], []byte{0, 0, 0, 0})
		mutate("undecodable word in the code")
	case 4:
		// jump outside of the code: jal x0, +2044 as the first word
		copy(m.Payload, wordBytes(0x7fc0006f))
		mutate("constant jump target outside of the code")
	case 5:
		m.Type = []uint16{elfgen.ETNone, elfgen.ETRel, elfgen.ETCore}[uniformInt(t, 3, "badType")]
		mutate("not an executable type")
	case 6:
		m.Sections[0].Size -= uint64(1 + uniformInt(t, 3, "cut"))
		mutate("truncated last word")
	case 7:
		m.Segments[1].Vaddr = rvCodeBase + 4
		mutate("overlapping segments")
	case 8:
		m.Segments[0].Memsz = m.Segments[0].Filesz - 1
		mutate("memsz < filesz")
	case 9:
		m.Segments = nil
		m2 := programELF(p)
		m2.Segments = nil
		// offsets move when the program header table disappears
		m2.Sections[0].Off, m2.Sections[1].Off = m2.PayloadOff(), m2.PayloadOff()+uint64(4*len(p.words))
		m = m2
		mutate("no program headers")
	case 10, 11, 12:
		// the code at an extreme address: ending exactly at 2^64 (the end address
		// wraps to 0), a few pages below it, or at address 0
		size := uint64(4 * len(p.words))
		var base uint64
		switch pre {
		case 10:
			base = -size
		case 11:
			base = -size - 4096*uint64(1+uniformInt(t, 4, "pagesBelowTop"))
		}
		m.Sections[0].Addr = base
		if rapid.Bool().Draw(t, "moveSegmentToo") {
			m.Segments[0].Vaddr = base
		}
		m.Entry = base + (p.entry - rvCodeBase)
		mutate(fmt.Sprintf("code section at 0x%x (extreme address)", base))
	}
	file, lay := m.Bytes()
	in.bytes = file

	switch uniformInt(t, 24, "byteMutation") {
	case 0:
		in.bytes = file[:uniformInt(t, len(file)+1, "truncAny")]
		mutate(in.desc + " + truncated at random offset")
	case 1:
		bounds := []int{0, 4, 16, 52, 63, 64, 65, int(m.PayloadOff()) - 1, int(m.PayloadOff()), int(lay.Shoff), int(lay.Shoff) + 64, len(file) - 1}
		k := bounds[uniformInt(t, len(bounds), "truncAt")]
		if k >= 0 && k <= len(file) {
			in.bytes = file[:k]
			mutate(in.desc + fmt.Sprintf(" + truncated at %d", k))
		}
	case 2, 3:
		bs := append([]byte{}, file...)
		n := 1 + uniformInt(t, 3, "nflips")
		region := uniformInt(t, 3, "flipRegion")
		for i := 0; i < n; i++ {
			var pos int
			switch region {
			case 0:
				pos = uniformInt(t, 64, "flipHdr")
			case 1:
				pos = 64 + uniformInt(t, int(m.PayloadOff())-63, "flipPh")
			default:
				pos = int(lay.Shoff) + uniformInt(t, len(file)-int(lay.Shoff), "flipSh")
			}
			if pos < len(bs) {
				bs[pos] ^= byte(1) << uint(uniformInt(t, 8, "flipBit"))
			}
		}
		in.bytes = bs
		mutate(in.desc + " + header/table bit flips")
	case 4:
		bs := append([]byte{}, file...)
		bs[4] = byte(uniformInt(t, 4, "class"))
		in.bytes = bs
		mutate(in.desc + " + class byte changed")
	case 5:
		bs := append([]byte{}, file...)
		bs[5] = byte(uniformInt(t, 4, "data"))
		in.bytes = bs
		mutate(in.desc + " + endianness byte changed")
	case 6:
		bs := append([]byte{}, file...)
		bs[18], bs[19] = byte(uniformInt(t, 256, "machLo")), byte(uniformInt(t, 2, "machHi"))
		in.bytes = bs
		// machine is not inspected by the tool: keeps validity of the layout
		in.desc += " + machine changed"
	case 7:
		in.bytes = nil
		mutate("zero-length file")
	case 8:
		in.kind = "missing"
		mutate("missing file")
	case 9:
		in.kind = "dir"
		mutate("directory")
	case 10:
		// section offset/size overflow
		bs := append([]byte{}, file...)
		sh := int(lay.Shoff) + 64 // first real section
		for i := 0; i < 8; i++ {
			bs[sh+24+uniformInt(t, 16, "ovfByte")] = 0xff
		}
		in.bytes = bs
		mutate(in.desc + " + section offset/size overflow")
	case 11:
		in.bytes = []byte("#!/bin/sh\necho not an elf\n")
		mutate("text file")
	}
	return in
}

func TestC26(t *testing.T) {
	col := ev.New("C26", "rapid: input files for the real program: valid RV64 programs wrapped into ELF executables by an "+
		"independent writer, and the same with model-level defects (no executable section, entry mid-instruction/outside, "+
		"undecodable word, jump target outside the code, wrong type, truncated word, overlapping segments, memsz<filesz, code at address 0 / next to / ending at 2^64, "+
		"no program headers) and byte-level defects (truncation at every header boundary and at random offsets, bit flips "+
		"in ELF header / program header table / section header table, class/endianness/machine bytes, offset/size "+
		"overflow, empty file, text file, directory, missing file). Every input runs through the in-process start-up "+
		"pipeline of main.go (no panic allowed); a tenth of them and argument vectors of length 0-4 run through the real "+
		"binary under a pseudo terminal: verdict = UI entered and exit 0 after quit, or a non-zero exit status with an error message on stderr and no "+
		"Go panic/fatal trace. Files whose loadable bss exceeds 8 MiB are excluded (known finding huge-memsz, or outside the "+
		"memory budget). non-trivial = corrupted file that passes elf.Open (reaches the tool's own code); distinct by bytes")
	defer col.Flush()
	bin, berr := mltwistBinary()
	if berr != "" {
		t.Skipf("INCONCLUSIVE: %s", berr)
	}
	env := append(os.Environ(), "GOTRACEBACK=single")

	runBinary := func(args []string) (*ptyrun.Result, string) {
		res, err := ptyrun.Run(append([]string{bin}, args...), [][]byte{[]byte("q\n"), []byte("\n"), []byte("q\n"), []byte("\n")}, 40, 100, 60*time.Second, env)
		if err != nil {
			return nil, "pty: " + err.Error()
		}
		return res, ""
	}
	verdict := func(res *ptyrun.Result, what string) string {
		ui := bytes.Contains(res.Stdout, []byte("Enter command:"))
		switch {
		case res.TimedOut:
			// a time budget hit is inconclusive, never a violation
			return "timeout"
		case res.Signaled:
			return fmt.Sprintf("%s: killed by a signal; stderr %q", what, tail(res.Stderr))
		case res.ExitCode == 0 && ui:
			return ""
		case res.ExitCode == 0:
			return fmt.Sprintf("%s: exit status 0 without entering the UI; output %q", what, tail(res.Stdout))
		case res.ExitCode != 0 && len(bytes.TrimSpace(res.Stderr)) > 0 && !bytes.Contains(res.Stderr, []byte("goroutine ")) &&
			!bytes.Contains(res.Stderr, []byte("panic:")) && !bytes.Contains(res.Stderr, []byte("fatal error:")):
			// non-zero status with an error message (the wording is not prescribed)
			return ""
		}
		return fmt.Sprintf("%s: exit status %d, stderr %q, terminal output tail %q", what, res.ExitCode, tail(res.Stderr), tail(res.Stdout))
	}

	if col.Known("huge-memsz") {
		// witness of the known finding: a 2^62 byte bss
		p := &rvProgram{words: []uint32{0x00000013}, text: []string{"nop"}, data: make([]byte, rvDataLen), entry: rvCodeBase}
		m := programELF(p)
		m.Segments[1].Memsz = 1 << 62
		file, _ := m.Bytes()
		name := writeScratch(file)
		res, msg := runBinary([]string{name})
		if msg == "" && verdict(res, "witness") != "" {
			col.ReportKnown("huge-memsz", "PT_LOAD with memsz-filesz = 2^62 crashes start-up (runtime panic makeslice: len out of range in elf.(*Parser).Memory)")
		}
	}

	rapid.Check(t, func(t *rapid.T) {
		col.Case()
		// argument vectors
		if uniformInt(t, 25, "argv") == 0 {
			n := uniformInt(t, 5, "argc")
			if n == 1 {
				n = 2
			}
			args := make([]string, n)
			for i := range args {
				args[i] = []string{"", "-h", "--help", "x", "/dev/null", "/nonexistent/file"}[uniformInt(t, 6, "arg")]
			}
			res, msg := runBinary(args)
			if msg != "" {
				t.Skip(msg)
			}
			if v := verdict(res, fmt.Sprintf("arguments %q", args)); v != "" && v != "timeout" {
				t.Fatalf("%s", v)
			}
			if res.ExitCode == 0 {
				t.Fatalf("arguments %q: exit status 0", args)
			}
			col.Class("argv")
			return
		}
		in := drawStartupInput(t)
		var name string
		switch in.kind {
		case "missing":
			name = filepath.Join(scratchDir(), "does-not-exist")
		case "dir":
			name = scratchDir()
		default:
			name = writeScratch(in.bytes)
			if maxBSS(in.bytes) > bssLimit {
				if col.Known("huge-memsz") {
					col.Excluded("huge-memsz")
					return
				}
				// not a listed finding: the class stays in, but only through the
				// real binary (a failed allocation must not kill the checker)
				res, msg := runBinary([]string{name})
				if msg != "" {
					t.Skip(msg)
				}
				if v := verdict(res, in.desc+" (bss > 8 MiB)"); v == "timeout" {
					col.Class("binary-timeout-inconclusive")
					return
				} else if v != "" {
					t.Fatalf("%s\n  file (%d bytes): %x", v, len(in.bytes), in.bytes)
				}
				col.Class("huge-bss-through-binary")
				return
			}
		}
		stage, crash := startupInProcess(name)
		if crash != "" {
			t.Fatalf("start-up pipeline crashed at stage %s on %s: %s\n  file (%d bytes): %x", stage, in.desc, crash, len(in.bytes), in.bytes)
		}
		if in.valid && stage != "ui" {
			t.Fatalf("valid program stopped at stage %s\n  file: %x", stage, in.bytes)
		}
		col.Class("stage/" + stage)
		if !in.valid && stage != "open" {
			col.Nontrivial(fmt.Sprintf("%x", in.bytes))
		}
		if uniformInt(t, 10, "runBinary") == 0 {
			res, msg := runBinary([]string{name})
			if msg != "" {
				t.Skip(msg)
			}
			if v := verdict(res, in.desc); v == "timeout" {
				col.Class("binary-timeout-inconclusive")
				return
			} else if v != "" {
				t.Fatalf("%s\n  in-process stage: %s\n  file (%d bytes): %x", v, stage, len(in.bytes), in.bytes)
			}
			entered := bytes.Contains(res.Stdout, []byte("Enter command:"))
			if in.valid && !entered {
				t.Fatalf("valid program did not enter the UI: exit %d stderr %q", res.ExitCode, tail(res.Stderr))
			}
			if entered != (stage == "ui") {
				t.Fatalf("binary entered UI = %v but in-process pipeline stopped at %s (%s)", entered, stage, in.desc)
			}
			col.Class("binary-run")
			col.AddExtra("binary_runs", 1)
		}
		if col.WantSample() {
			col.Sample(map[string]interface{}{"input": in.desc, "stage": stage, "bytes": len(in.bytes)})
		} else {
			col.SkipSample()
		}
	})
}

func tail(b []byte) string {
	s := string(b)
	if len(s) > 400 {
		s = "..." + s[len(s)-400:]
	}
	return strings.ReplaceAll(s, "\r", "")
}
