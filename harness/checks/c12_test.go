package checks

import (
	"testing"

	"mltwist/internal/exprtransform"
	"mltwist/pkg/expr"
	"mltwist/verifharness/internal/ev"
	"mltwist/verifharness/internal/irsem"

	"pgregory.net/rapid"
)

func widthStr(w expr.Width) string { return irsem.String(expr.NewRegLoad("w", w)) }

func c12GadgetUnderMemAddr(e expr.Expr) bool {
	found := false
	irsem.Walk(e, func(x expr.Expr) {
		if m, ok := x.(expr.MemLoad); ok {
			if _, ok := irsem.IsWidthGadget(m.Addr()); ok {
				found = true
			}
		}
	})
	return found
}

func c12CountGadgets(e expr.Expr) int {
	n := 0
	irsem.Walk(e, func(x expr.Expr) {
		if _, ok := irsem.IsWidthGadget(x); ok {
			n++
		}
	})
	return n
}

// c12Addrs collects the values of all memory-load addresses of e under env, in
// pre-order, each at its own width.
func c12Addrs(e expr.Expr, env irsem.Env) []string {
	var out []string
	irsem.Walk(e, func(x expr.Expr) {
		if m, ok := x.(expr.MemLoad); ok {
			out = append(out, string(m.Key())+"@"+irsem.Eval(m.Addr(), env).Text(16))
		}
	})
	return out
}

var colC12 *ev.Collector

// propC12 is the property of C12; it is shared by the rapid test and the native
// fuzz target.
func propC12(t *rapid.T) {
	col := colC12
	col.Case()
	cfg := irsem.GenCfg{MaxDepth: rapid.IntRange(1, ev.Scale(4, 6)).Draw(t, "depth"), GadgetProb: 50}
	if rapid.IntRange(0, 2).Draw(t, "small") == 0 {
		cfg.SmallWidths = true
	}
	e := irsem.GenExpr(t, cfg)
	if rapid.IntRange(0, 2).Draw(t, "topmem") == 0 {
		// force the interesting shape: memory load whose address is a gadget
		aw := irsem.GenWidth(t, cfg, "aw")
		lw := irsem.GenWidth(t, cfg, "lw")
		e = expr.NewMemLoad(irsem.MemKeys[0], expr.NewBinary(expr.Add, e, expr.Zero, aw), lw)
	}
	if rapid.IntRange(0, 7).Draw(t, "bareConst") == 0 {
		e = irsem.GenConst(t, irsem.GenWidth(t, cfg, "cw"), "bare")
	}
	before := irsem.String(e)
	seeds := []uint64{drawEnvSeed(t, "env1"), drawEnvSeed(t, "env2")}

	// SetWidth
	w := irsem.GenWidth(t, irsem.GenCfg{}, "target")
	var sw expr.Expr
	if msg := catch(func() { sw = exprtransform.SetWidth(e, w) }); msg != "" {
		t.Fatalf("SetWidth(%s, %d): %s", before, w, msg)
	}
	if sw.Width() != w {
		t.Fatalf("SetWidth(%s, %d) has width %d", before, w, sw.Width())
	}
	for _, s := range seeds {
		env := irsem.NewHashEnv(s)
		want := irsem.Fit(irsem.Eval(e, env), w)
		if got := irsem.Eval(sw, env); got.Cmp(want) != 0 {
			t.Fatalf("SetWidth(%s, %d) = %s evaluates to %x, want %x (env seed %d)", before, w, irsem.String(sw), got, want, s)
		}
	}

	// Re-widthing the result again (narrow then wide, wide then narrow, ...): each
	// step truncates or zero-extends the value of the previous step.
	chain, chainW := sw, []expr.Width{w}
	for i, n := 0, rapid.IntRange(0, 2).Draw(t, "chain"); i < n; i++ {
		w2 := irsem.GenWidth(t, irsem.GenCfg{}, "target2")
		prev := chain
		prevStr := irsem.String(prev)
		if msg := catch(func() { chain = exprtransform.SetWidth(prev, w2) }); msg != "" {
			t.Fatalf("SetWidth(%s, %d): %s", prevStr, w2, msg)
		}
		chainW = append(chainW, w2)
		if chain.Width() != w2 {
			t.Fatalf("SetWidth(%s, %d) has width %d", prevStr, w2, chain.Width())
		}
		for _, s := range seeds {
			env := irsem.NewHashEnv(s)
			want := irsem.Eval(e, env)
			for _, cw := range chainW {
				want = irsem.Fit(want, cw)
			}
			if got := irsem.Eval(chain, env); got.Cmp(want) != 0 {
				t.Fatalf("re-widthing %s through widths %v gives %s which evaluates to %x, want %x (env seed %d)",
					before, chainW, irsem.String(chain), got, want, s)
			}
		}
		if irsem.String(prev) != prevStr || irsem.String(e) != before {
			t.Fatalf("SetWidth modified its argument %s", prevStr)
		}
		col.Class("setwidth-chain")
	}

	// PurgeWidthGadgets
	var p expr.Expr
	if msg := catch(func() { p = exprtransform.PurgeWidthGadgets(e) }); msg != "" {
		t.Fatalf("PurgeWidthGadgets(%s): %s", before, msg)
	}
	if irsem.String(e) != before {
		t.Fatalf("PurgeWidthGadgets modified its argument")
	}
	if p.Width() != e.Width() {
		t.Fatalf("PurgeWidthGadgets(%s) = %s changes width", before, irsem.String(p))
	}
	for _, s := range seeds {
		env := irsem.NewHashEnv(s)
		want, got := irsem.Eval(e, env), irsem.Eval(p, env)
		if want.Cmp(got) != 0 {
			t.Fatalf("PurgeWidthGadgets changes the value (env seed %d):\n  e = %s = %x\n  p = %s = %x",
				s, before, want, irsem.String(p), got)
		}
		wa, ga := c12Addrs(e, env), c12Addrs(p, env)
		if len(wa) != len(ga) {
			t.Fatalf("PurgeWidthGadgets changes the number of memory loads: %s -> %s", before, irsem.String(p))
		}
		for i := range wa {
			if wa[i] != ga[i] {
				t.Fatalf("PurgeWidthGadgets changes the address of memory load %d from %s to %s (env seed %d):\n  e = %s\n  p = %s",
					i, wa[i], ga[i], s, before, irsem.String(p))
			}
		}
	}
	// Purging may only remove nodes. (Which nodes count as gadgets can change while
	// purging - Add(x, gadget(0)) becomes a gadget itself - so only the size is compared;
	// the statement demands value preservation, checked above.)
	if irsem.Size(p) > irsem.Size(e) {
		t.Fatalf("PurgeWidthGadgets grew the expression: %s -> %s", before, irsem.String(p))
	}

	g1, g2 := c12CountGadgets(e), c12CountGadgets(p)
	under := c12GadgetUnderMemAddr(e)
	switch {
	case under:
		col.Class("gadget-under-mem-addr")
		col.Nontrivial(before)
	case g2 < g1 && g2 > 0:
		col.Class("some-removed-some-kept")
		col.Nontrivial(before)
	case g2 < g1:
		col.Class("all-removed")
	case g1 > 0:
		col.Class("none-removed")
	default:
		col.Class("no-gadgets")
	}
	if col.WantSample() {
		col.Sample(map[string]string{"expr": before, "purged": irsem.String(p), "setwidth_target": widthStr(w)})
	} else {
		col.SkipSample()
	}
}

func TestC12(t *testing.T) {
	runWitnesses(t, "C12")
	colC12 = ev.New("C12", "rapid: expression trees (depth <= 4) with high width-gadget density (every generated "+
		"sub-expression wrapped in 1-3 gadgets of random widths with probability 1/2, incl. gadgets directly under "+
		"memory-load addresses, narrowing-then-widening chains and gadget look-alikes) x target widths 1..255 (and chains of up to 3 successive re-widthings; 1/8 bare constants); "+
		"oracle = math/big evaluator: SetWidth(e,w) == fit(e,w); PurgeWidthGadgets(e) == e (value, width, every "+
		"memory-load address at its own width, node count non-increasing). non-trivial = >=1 gadget removed and >=1 kept, or a gadget directly under a "+
		"memory-load address; distinct by tree rendering")
	col := colC12
	defer col.Flush()

	rapid.Check(t, propC12)
}

// FuzzC12 drives the same property with Go's coverage-guided fuzzer (thorough
// tier only; see DESIGN.md).
func FuzzC12(f *testing.F) { f.Fuzz(rapid.MakeFuzz(propC12)) }
