package checks

import (
	"fmt"
	"strings"
	"testing"

	"mltwist/internal/exprtransform"
	"mltwist/internal/riscv"
	"mltwist/pkg/model"
	"mltwist/verifharness/internal/ev"
	"mltwist/verifharness/internal/irsem"
	"mltwist/verifharness/internal/rvref"

	"pgregory.net/rapid"
)

// c02Check compares acceptance and naming of one word; returns a failure
// description or "".
func c02Check(p riscv.Parser, cfg rvref.Cfg, word uint32, addr uint64) (string, *rvref.Ins) {
	want := rvref.Decode(word, cfg)
	var ins model.Instruction
	var err error
	if msg := catch(func() { ins, err = p.Parse(model.Addr(addr), wordBytes(word)) }); msg != "" {
		return fmt.Sprintf("%s: Parse(0x%x, %08x): %s", cfg, addr, word, msg), want
	}
	if want == nil {
		if err == nil {
			return fmt.Sprintf("%s: word %08x is not an instruction of this configuration but was accepted as %q",
				cfg, word, ins.Details.Name()), want
		}
		return "", want
	}
	if err != nil {
		return fmt.Sprintf("%s: word %08x is %s but was rejected: %v", cfg, word, want.Name, err), want
	}
	if !strings.EqualFold(ins.Details.Name(), want.Name) {
		return fmt.Sprintf("%s: word %08x is %s but was named %q", cfg, word, want.Name, ins.Details.Name()), want
	}
	if ins.ByteLen != 4 {
		return fmt.Sprintf("%s: word %08x (%s) has ByteLen %d", cfg, word, want.Name, ins.ByteLen), want
	}
	return "", want
}

func effectsString(ins model.Instruction) string {
	var sb strings.Builder
	for _, ef := range ins.Effects {
		sb.WriteString(irsem.EffectString(ef))
		sb.WriteString(";")
	}
	return sb.String()
}

func TestC02(t *testing.T) {
	runWitnesses(t, "C02")
	col := ev.New("C02", "rapid: for each of the 8 configurations (RV32/RV64 x {-,M,A,MA}): (a) words built from an "+
		"independent reference decode table with every free bit random, (b) the same with 1-3 random bits flipped "+
		"(reserved-field and neighbouring-opcode boundaries), (c) uniformly random words, (d) inputs shorter than 4 "+
		"bytes and words followed by 1-12 junk bytes. Oracle: accepted iff the reference table decodes the word in that "+
		"configuration, names equal case-insensitively, trailing bytes do not change name/text/effects. The thorough "+
		"tier additionally enumerates all 2^17 (opcode,funct3,funct7) triples x 8 configurations x 4 fillings, all 2^12 "+
		"SYSTEM funct12 values, all fence fm/rd/rs1 patterns and all lr rs2 values. non-trivial = accepted word, or "+
		"rejected word within Hamming distance <=3 of an accepted one; distinct by (configuration, word)")
	defer col.Flush()

	if _, msg := rvParser(rvref.Cfg{XLEN: 64}); msg != "" {
		t.Fatalf("%s", msg)
	}

	rapid.Check(t, func(t *rapid.T) {
		for rep := 0; rep < 8; rep++ {
			col.Case()
			cfg := drawCfg(t)
			p, _ := rvParser(cfg)
			stream := rapid.IntRange(0, 9).Draw(t, "stream")
			var word uint32
			flips := 0
			var srcIns *rvref.Ins
			switch {
			case stream <= 3: // (a)
				srcIns, word = drawInsWord(t, cfg)
			case stream <= 6: // (b)
				srcCfg := cfg
				if rapid.IntRange(0, 3).Draw(t, "otherCfg") == 0 {
					srcCfg = drawCfg(t)
				}
				srcIns, word = drawInsWord(t, srcCfg)
				flips = rapid.IntRange(1, 3).Draw(t, "flips")
				for i := 0; i < flips; i++ {
					word ^= 1 << uint(rapid.IntRange(0, 31).Draw(t, "flipbit"))
				}
			case stream <= 7: // (c)
				word = rapid.Uint32().Draw(t, "word")
			default: // (d) short input / trailing bytes
				srcIns, word = drawInsWord(t, cfg)
				bs := wordBytes(word)
				n := rapid.IntRange(0, 3).Draw(t, "shortLen")
				var err error
				if msg := catch(func() { _, err = p.Parse(0x1000, bs[:n]) }); msg != "" {
					t.Fatalf("%s: Parse of %d bytes: %s", cfg, n, msg)
				}
				if err == nil {
					t.Fatalf("%s: input of %d bytes (%x) was accepted", cfg, n, bs[:n])
				}
				junk := rapid.SliceOfN(rapid.Byte(), 1, 12).Draw(t, "junk")
				addr := model.Addr(rapid.Uint32().Draw(t, "addr") &^ 3)
				var i1, i2 model.Instruction
				var e1, e2 error
				if msg := catch(func() {
					i1, e1 = p.Parse(addr, bs)
					i2, e2 = p.Parse(addr, append(append([]byte{}, bs...), junk...))
				}); msg != "" {
					t.Fatalf("%s: Parse(%08x) with trailing bytes: %s", cfg, word, msg)
				}
				if (e1 == nil) != (e2 == nil) {
					t.Fatalf("%s: trailing bytes %x change acceptance of %08x: %v / %v", cfg, junk, word, e1, e2)
				}
				if e1 == nil {
					if i1.Details.Name() != i2.Details.Name() || i1.Details.String() != i2.Details.String() ||
						i1.ByteLen != i2.ByteLen || i1.Type != i2.Type || effectsString(i1) != effectsString(i2) {
						t.Fatalf("%s: trailing bytes %x change decoding of %08x: %s / %s", cfg, junk, word, i1.Details.String(), i2.Details.String())
					}
					for k := range i1.Effects {
						for j, x := range exprtransform.Exprs(i1.Effects[k]) {
							if !exprtransform.Equal(x, exprtransform.Exprs(i2.Effects[k])[j]) {
								t.Fatalf("%s: trailing bytes change effects of %08x", cfg, word)
							}
						}
					}
				}
				col.Class("stream/d-short-and-trailing")
			}

			msg, want := c02Check(p, cfg, word, 0x1000)
			if msg != "" {
				t.Fatalf("%s", msg)
			}
			switch {
			case want != nil:
				col.Class("accepted/" + want.Name)
				col.Nontrivial(fmt.Sprintf("%s/%08x", cfg, word))
			case flips > 0:
				col.Class("rejected/near-" + srcIns.Name)
				col.Nontrivial(fmt.Sprintf("%s/%08x", cfg, word))
			default:
				col.Class("rejected/random")
			}
			col.Class("cfg/" + cfg.String())
			if col.WantSample() {
				nm := "rejected"
				if want != nil {
					nm = want.Name
				}
				col.Sample(map[string]string{"cfg": cfg.String(), "word": fmt.Sprintf("%08x", word), "reference": nm})
			} else {
				col.SkipSample()
			}
		}
	})

	if ev.Thorough() && !t.Failed() {
		c02Enumerate(t, col)
	}
}

// c02Enumerate walks the complete (opcode, funct3, funct7) space and the
// fully-specified encodings; work is split over shards.
func c02Enumerate(t *testing.T, col *ev.Collector) {
	shard, shards := ev.Shard()
	seed := uint64(ev.Seed())*0x9e3779b97f4a7c15 + 12345
	rnd := func() uint32 {
		seed ^= seed << 13
		seed ^= seed >> 7
		seed ^= seed << 17
		return uint32(seed >> 16)
	}
	n := 0
	check := func(cfg rvref.Cfg, word uint32) {
		p, _ := rvParser(cfg)
		if msg, _ := c02Check(p, cfg, word, 0x2000); msg != "" {
			t.Fatalf("enumeration: %s", msg)
		}
		n++
	}
	cfgs := rvref.AllCfgs()
	for triple := 0; triple < 1<<17; triple++ {
		if triple%shards != shard {
			continue
		}
		opc := uint32(triple & 0x7f)
		f3 := uint32(triple>>7) & 7
		f7 := uint32(triple>>10) & 0x7f
		base := opc | f3<<12 | f7<<25
		for _, cfg := range cfgs {
			for k := 0; k < 4; k++ {
				fill := rnd() & 0x01ff8f80 // rd, rs1, rs2
				if k == 0 {
					fill = 0
				}
				check(cfg, base|fill)
			}
		}
	}
	if shard == 0 {
		for _, cfg := range cfgs {
			for f12 := uint32(0); f12 < 1<<12; f12++ {
				check(cfg, 0x73|f12<<20)                    // SYSTEM, funct3=0, rd=rs1=0
				check(cfg, 0x73|f12<<20|(rnd()&0x000f8f80)) // with rd/rs1 noise
			}
			for x := uint32(0); x < 1<<14; x++ { // fence: fm(4) rs1(5) rd(5)
				fm, rs1, rd := x&15, (x>>4)&31, (x>>9)&31
				check(cfg, 0x0f|fm<<28|rs1<<15|rd<<7|(rnd()&0x0ff00000))
			}
			for rs2 := uint32(0); rs2 < 32; rs2++ {
				for _, f3 := range []uint32{2, 3} {
					check(cfg, 0x2f|f3<<12|2<<27|rs2<<20|(rnd()&0x060f8f80))
				}
			}
		}
	}
	col.Cases(n)
	col.AddExtra("enumerated_words", int64(n))
	col.Extra("enumeration", "all 2^17 (opcode,funct3,funct7) triples x 8 configurations x 4 fillings of rd/rs1/rs2; "+
		"all 2^12 funct12 of SYSTEM/funct3=0; all 2^14 fence (fm,rs1,rd); all lr rs2 values")
}
