package checks

import (
	"fmt"
	"sort"
	"testing"

	"mltwist/internal/state/memory"
	"mltwist/pkg/expr"
	"mltwist/pkg/model"
	"mltwist/verifharness/internal/ev"
	"mltwist/verifharness/internal/irsem"

	"pgregory.net/rapid"
)

type c15Block struct {
	begin uint64
	bytes []byte
}

func (b c15Block) Begin() model.Addr { return model.Addr(b.begin) }
func (b c15Block) Bytes() []byte     { return b.bytes }

// c15Layout draws 0-6 non-empty blocks in the window; overlapping with
// probability about 1/4.
func c15Layout(t *rapid.T, win memWindow) (blocks []c15Block, overlap bool) {
	c15SharedImage = nil
	n := rapid.IntRange(0, 6).Draw(t, "nblocks")
	wantOverlap := n >= 2 && rapid.IntRange(0, 3).Draw(t, "overlap") == 0
	used := make([]bool, win.size)
	// in the large windows half of the layouts are dense (blocks of up to 250
	// bytes), so that wide accesses find long present ranges
	dense := win.size >= 600 && rapid.Bool().Draw(t, "denseLayout")
	for i := 0; i < n; i++ {
		ln := rapid.IntRange(1, 12).Draw(t, "blen")
		if dense {
			ln = rapid.IntRange(1, 250).Draw(t, "blenDense")
		}
		off := rapid.IntRange(0, win.size-ln).Draw(t, "boff")
		clash := false
		for k := off; k < off+ln; k++ {
			if used[k] {
				clash = true
			}
		}
		if clash && !wantOverlap {
			// place the block in the first free gap that fits, or skip it
			placed := false
			for o := 0; o+ln <= win.size; o++ {
				free := true
				for k := o; k < o+ln; k++ {
					if used[k] {
						free = false
						break
					}
				}
				if free {
					off, placed = o, true
					break
				}
			}
			if !placed {
				continue
			}
			clash = false
		}
		if clash {
			overlap = true
		}
		for k := off; k < off+ln; k++ {
			used[k] = true
		}
		blocks = append(blocks, c15Block{begin: win.base + uint64(off), bytes: irsem.GenBytes(t, ln, "bbytes")})
	}
	if len(blocks) > 0 && rapid.IntRange(0, 2).Draw(t, "sharedImage") == 0 {
		// the blocks are slices of one buffer (as sections of a file image are), laid
		// out in the order they were drawn and followed by spare capacity: whoever
		// appends to one of them writes into a neighbour
		total := 0
		for _, b := range blocks {
			total += len(b.bytes)
		}
		img := make([]byte, 0, total+8)
		for i := range blocks {
			at := len(img)
			img = append(img, blocks[i].bytes...)
			blocks[i].bytes = img[at:len(img):cap(img)]
		}
		c15SharedImage = img
	}
	return blocks, overlap
}

// c15SharedImage is the buffer the blocks of the last layout were cut from (nil
// if they have buffers of their own).
var c15SharedImage []byte

func TestC15(t *testing.T) {
	runWitnesses(t, "C15")
	col := ev.New("C15", "rapid state machine over memory.Bytes: initial layout of 0-6 non-empty blocks in a 48-byte "+
		"window or, with blocks of up to 250 bytes, in a 600-byte window (adjacent allowed, overlapping with probability 1/4 -> NewBytes must fail, else succeed; a third of the layouts cut out of one shared buffer with spare capacity, which NewBytes must leave untouched), then constant "+
		"stores (constant width <,=,> store width), loads, Missing and Blocks on arbitrary sub-ranges. Reference: plain "+
		"byte map; every constant/byte slice handed in or returned is kept with a private copy and re-compared after "+
		"every step (aliasing detector). non-trivial = a store creating a new block in a gap before >=2 existing blocks "+
		"or spanning gap+block+gap, followed by another store into the same range; distinct by history")
	defer col.Flush()

	rapid.Check(t, func(t *rapid.T) {
		col.Case()
		win := memWindows[rapid.IntRange(0, len(memWindows)-1).Draw(t, "window")]
		layout, overlap := c15Layout(t, win)
		image, imageCopy := c15SharedImage, cloneBytes(c15SharedImage)
		in := make([]memory.ByteBlock, len(layout))
		copies := make([][]byte, len(layout))
		for i, b := range layout {
			in[i] = b
			copies[i] = cloneBytes(b.bytes)
		}
		var mem *memory.Bytes
		var err error
		if msg := catch(func() { mem, err = memory.NewBytes(in) }); msg != "" {
			t.Fatalf("NewBytes(%v): %s", layout, msg)
		}
		if string(image) != string(imageCopy) {
			t.Fatalf("NewBytes(%v) modified the buffer its blocks were cut from: %x -> %x", layout, imageCopy, image)
		}
		for i, b := range layout {
			if string(b.bytes) != string(copies[i]) {
				t.Fatalf("NewBytes(%v) modified the bytes of block %d it was given: %x -> %x", layout, i, copies[i], b.bytes)
			}
		}
		if overlap {
			if err == nil {
				t.Fatalf("NewBytes accepted overlapping blocks %v", layout)
			}
			col.Class("rejected-overlap")
			return
		}
		if err != nil {
			t.Fatalf("NewBytes rejected non-overlapping blocks %v: %v", layout, err)
		}

		top := newMemModel()
		sorted := append([]c15Block(nil), layout...)
		sort.Slice(sorted, func(i, j int) bool { return sorted[i].begin < sorted[j].begin })
		for _, b := range sorted {
			for i, by := range b.bytes {
				top.store(b.begin+uint64(i), expr.NewConst([]byte{by}, 1), 1)
			}
		}
		c := &memChecker{
			mem:       mem,
			view:      memView{layers: []*memModel{top}},
			top:       top,
			win:       win,
			seeds:     []uint64{1},
			maxW:      memMaxWidth(win, 24),
			constOnly: true,
		}
		fmt.Fprintf(&c.hist, "layout%v;", layout)
		gapBefore2 := false
		sameRangeAgain := false
		var lastNew [2]uint64
		t.Repeat(map[string]func(*rapid.T){
			"store": func(t *rapid.T) {
				// geometry classification uses the model before the store
				before := top.bytes
				beforeAddrs := make(map[uint64]bool, len(before))
				for a := range before {
					beforeAddrs[a] = true
				}
				hlen := c.hist.Len()
				c.store(t)
				var addr uint64
				fmt.Sscanf(c.hist.String()[hlen:], "store(%x,", &addr)
				// new block in a gap?
				if !beforeAddrs[addr] {
					// count existing blocks strictly after addr
					blocksAfter := 0
					prev := false
					for a := addr + 1; a < win.base+uint64(win.size)+1; a++ {
						cur := beforeAddrs[a]
						if cur && !prev {
							blocksAfter++
						}
						prev = cur
					}
					if blocksAfter >= 2 {
						gapBefore2 = true
						lastNew = [2]uint64{addr, addr + 1}
					}
				} else if gapBefore2 && addr >= lastNew[0] && addr <= lastNew[1]+8 {
					sameRangeAgain = true
				}
			},
			"load":    c.load,
			"missing": c.missing,
			"blocks":  c.blocks,
			"": func(t *rapid.T) {
				for i, b := range layout {
					if string(b.bytes) != string(copies[i]) {
						t.Fatalf("initial block %d handed to NewBytes was modified: %x -> %x (history %s)", i, copies[i], b.bytes, c.hist.String())
					}
				}
			},
		})
		switch {
		case gapBefore2 && sameRangeAgain:
			col.Class("new-block-before->=2-blocks+restore")
			col.Nontrivial(c.hist.String())
		case gapBefore2:
			col.Class("new-block-before->=2-blocks")
			col.Nontrivial(c.hist.String())
		default:
			col.Class("other")
		}
		if col.WantSample() {
			col.Sample(c.hist.String())
		} else {
			col.SkipSample()
		}
	})
}
