package checks

import (
	"fmt"
	"math/big"
	"testing"

	"mltwist/internal/exprtransform"
	"mltwist/pkg/expr"
	"mltwist/verifharness/internal/ev"
	"mltwist/verifharness/internal/irsem"

	"pgregory.net/rapid"
)

var c10Ops = []expr.BinaryOp{expr.Add, expr.Lsh, expr.Rsh, expr.Mul, expr.Div, expr.Nand}

func c10OpName(op expr.BinaryOp) string {
	return map[expr.BinaryOp]string{expr.Add: "add", expr.Lsh: "lsh", expr.Rsh: "rsh",
		expr.Mul: "mul", expr.Div: "div", expr.Nand: "nand"}[op]
}

// c10Operand draws an operand biased for operator op, argument index idx.
func c10Operand(t *rapid.T, op expr.BinaryOp, idx int, w expr.Width, label string) expr.Const {
	ow := irsem.GenWidth(t, irsem.GenCfg{}, label)
	if rapid.IntRange(0, 3).Draw(t, label+"_same") == 0 {
		ow = w
	}
	if (op == expr.Lsh || op == expr.Rsh) && idx == 2 && rapid.IntRange(0, 3).Draw(t, label+"_shk") != 0 {
		// shift amounts around interesting thresholds
		bits := int(w) * 8
		cands := []int{0, 1, 7, 8, 9, 15, 16, bits - 8, bits - 1, bits, bits + 1, bits + 8, 2047, 2048}
		v := cands[rapid.IntRange(0, len(cands)-1).Draw(t, label+"_shv")]
		if v < 0 {
			v = 0
		}
		bs := make([]byte, ow)
		bs[0] = byte(v)
		if ow > 1 {
			bs[1] = byte(v >> 8)
		}
		if ow > 8 && rapid.IntRange(0, 5).Draw(t, label+"_huge") == 0 {
			bs[8] = 1 // >= 2^64
		}
		return expr.NewConst(bs, ow)
	}
	if op == expr.Div && idx == 2 && rapid.IntRange(0, 3).Draw(t, label+"_dk") == 0 {
		// divisor with zero low w bytes but non-zero above (truncated divisor) or zero/one
		bs := make([]byte, ow)
		switch rapid.IntRange(0, 2).Draw(t, label+"_dz") {
		case 0:
		case 1:
			bs[0] = 1
		default:
			if int(ow) > int(w) {
				bs[w] = 1
			}
		}
		return expr.NewConst(bs, ow)
	}
	return irsem.GenConst(t, ow, label)
}

func TestC10(t *testing.T) {
	col := ev.New("C10", "rapid: operator in {add,lsh,rsh,mul,div,nand,less} x operation width 1..255 x two "+
		"independently drawn operand widths x boundary-biased operand values (carry chains, shift thresholds, "+
		"zero/truncated divisors; a quarter of the operands is the (possibly re-widthed) result of an earlier fold of "+
		"the same case, and all results are re-checked at the end of the case); oracle = math/big arithmetic of the documented width rules. non-trivial = an "+
		"operand width differs from the operation width, or a shift >= 8 bits, or the exact result needed "+
		"reduction modulo 2^(8w); distinct by (op, widths, operand bytes)")
	defer col.Flush()
	inner := ev.Scale(10, 10)

	rapid.Check(t, func(t *rapid.T) {
		// Results of earlier folds are ordinary constants: a quarter of the operands
		// is an earlier result (possibly re-widthed), and every result must still
		// have its value when the case ends.
		type folded struct {
			c    expr.Const
			want *big.Int
			desc string
		}
		var results []folded
		defer func() {
			for _, r := range results {
				if constVal(r.c).Cmp(r.want) != 0 {
					t.Fatalf("the constant returned by ConstFold(%s) changed from %x to %s by later folds", r.desc, r.want, irsem.String(r.c))
				}
			}
		}()
		reuse := func(c expr.Const, label string) expr.Const {
			if len(results) == 0 || rapid.IntRange(0, 3).Draw(t, label+"_reuse") != 0 {
				return c
			}
			r := results[rapid.IntRange(0, len(results)-1).Draw(t, label+"_which")].c
			if rapid.Bool().Draw(t, label+"_rewidth") {
				r = r.WithWidth(irsem.GenWidth(t, irsem.GenCfg{}, label+"_rw"))
			}
			col.Class("operand-is-earlier-result")
			return r
		}
		for n := 0; n < inner; n++ {
			col.Case()
			w := irsem.GenWidth(t, irsem.GenCfg{}, "w")
			isLess := rapid.IntRange(0, 6).Draw(t, "isLess") == 0
			if isLess {
				c1 := reuse(c10Operand(t, 0, 1, w, "a"), "a")
				c2 := reuse(c10Operand(t, 0, 2, w, "b"), "b")
				if rapid.IntRange(0, 3).Draw(t, "eq") == 0 {
					c2 = expr.NewConst(c1.Bytes(), c2.Width())
				}
				et := reuse(c10Operand(t, 0, 1, w, "t"), "t")
				ef := reuse(c10Operand(t, 0, 1, w, "f"), "f")
				e := expr.NewLess(c1, c2, et, ef, w)
				var got expr.Expr
				if msg := catch(func() { got = exprtransform.ConstFold(e) }); msg != "" {
					t.Fatalf("ConstFold(%s): %s", irsem.String(e), msg)
				}
				want := irsem.Eval(e, nil)
				gc, ok := got.(expr.Const)
				if !ok {
					t.Fatalf("ConstFold(%s) is not a constant: %s", irsem.String(e), irsem.String(got))
				}
				if gc.Width() != w || constVal(gc).Cmp(want) != 0 {
					t.Fatalf("ConstFold(%s) = %s, want value %x of width %d",
						irsem.String(e), irsem.String(gc), want, w)
				}
				col.Class("less")
				results = append(results, folded{gc, want, irsem.String(e)})
				if c1.Width() != w || c2.Width() != w || et.Width() != w || ef.Width() != w {
					col.Nontrivial(irsem.String(e))
				}
				if col.WantSample() {
					col.Sample(map[string]string{"expr": irsem.String(e), "folded": irsem.String(gc)})
				} else {
					col.SkipSample()
				}
				continue
			}

			op := c10Ops[rapid.IntRange(0, len(c10Ops)-1).Draw(t, "op")]
			c1 := reuse(c10Operand(t, op, 1, w, "a"), "a")
			c2 := reuse(c10Operand(t, op, 2, w, "b"), "b")
			if rapid.IntRange(0, 7).Draw(t, "sameOperand") == 0 {
				c2 = c1 // the very same constant on both sides
			}
			snap1, snap2 := string(c1.Bytes()), string(c2.Bytes())
			e := expr.NewBinary(op, c1, c2, w)
			eStr := irsem.String(e)
			defer func() {
				if string(c1.Bytes()) != snap1 || string(c2.Bytes()) != snap2 {
					t.Fatalf("ConstFold(%s) modified its constant operands: now %x and %x", eStr, c1.Bytes(), c2.Bytes())
				}
			}()
			var got expr.Expr
			if msg := catch(func() { got = exprtransform.ConstFold(e) }); msg != "" {
				t.Fatalf("ConstFold(%s): %s", irsem.String(e), msg)
			}
			a, b := irsem.Fit(constVal(c1), w), irsem.Fit(constVal(c2), w)
			want := irsem.BinOp(op, a, b, w)
			gc, ok := got.(expr.Const)
			if !ok {
				t.Fatalf("ConstFold(%s) is not a constant: %s", irsem.String(e), irsem.String(got))
			}
			if gc.Width() != w || constVal(gc).Cmp(want) != 0 {
				t.Fatalf("ConstFold(%s) = %s, want value %x of width %d",
					irsem.String(e), irsem.String(gc), want, w)
			}
			col.Class(c10OpName(op) + "/w" + widthClass(w))
			results = append(results, folded{gc, want, irsem.String(e)})
			nontriv := c1.Width() != w || c2.Width() != w
			if (op == expr.Lsh || op == expr.Rsh) && b.IsUint64() && b.Uint64() >= 8 {
				nontriv = true
			}
			if op == expr.Add || op == expr.Mul {
				exact := new(big.Int)
				if op == expr.Add {
					exact.Add(a, b)
				} else {
					exact.Mul(a, b)
				}
				if exact.BitLen() > int(w)*8 {
					nontriv = true
				}
			}
			if nontriv {
				col.Nontrivial(irsem.String(e))
			}
			if col.WantSample() {
				col.Sample(map[string]string{"expr": irsem.String(e), "folded": irsem.String(gc)})
			} else {
				col.SkipSample()
			}
		}
	})
	_ = fmt.Sprint
}
