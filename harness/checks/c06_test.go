package checks

import (
	"fmt"
	"testing"

	"mltwist/internal/deps"
	"mltwist/internal/exprtransform"
	"mltwist/pkg/expr"
	"mltwist/pkg/model"
	"mltwist/verifharness/internal/ev"

	"pgregory.net/rapid"
)

func keysIntersect(a, b map[expr.Key]bool) bool {
	for k := range a {
		if b[k] {
			return true
		}
	}
	return false
}

func union(a, b map[expr.Key]bool) map[expr.Key]bool {
	u := map[expr.Key]bool{}
	for k := range a {
		u[k] = true
	}
	for k := range b {
		u[k] = true
	}
	return u
}

// c06Independent implements the five clauses of the statement; it returns ""
// if the adjacent pair (a, b) with b later must be swappable, else the clause
// that makes no claim.
func c06Independent(a, b *sIns, bIsTerminatingJump bool) string {
	if keysIntersect(union(a.regsRead, a.regsWrite), union(b.regsRead, b.regsWrite)) {
		return "share a register"
	}
	for k := range union(union(a.memRead, a.memWrite), union(b.memRead, b.memWrite)) {
		aAcc, bAcc := a.memRead[k] || a.memWrite[k], b.memRead[k] || b.memWrite[k]
		if aAcc && bAcc && (a.memWrite[k] || b.memWrite[k]) {
			return "conflicting memory access"
		}
	}
	if a.typ.Syscall() || a.typ.CPUStateChange() || b.typ.Syscall() || b.typ.CPUStateChange() {
		return "syscall or cpu state change"
	}
	memAcc := func(s *sIns) bool { return len(s.memRead)+len(s.memWrite) > 0 }
	if a.typ.MemOrder() && (memAcc(b) || b.typ.MemOrder()) {
		return "memory ordering"
	}
	if b.typ.MemOrder() && (memAcc(a) || a.typ.MemOrder()) {
		return "memory ordering"
	}
	if bIsTerminatingJump {
		return "later is the terminating jump"
	}
	return ""
}

func TestC06(t *testing.T) {
	col := ev.New("C06", "rapid: (2/3) valid programs of 1-4 blocks of 2-8 synthetic instructions (4 registers, 2 memories, "+
		"type flags, fall-through-only ip writers, terminating jumps), (1/3) generated RV64IMA programs lifted by the real front end; for every adjacent pair the five clauses of the "+
		"statement are evaluated on the generator's own description (own read/write sets); an independent pair must be "+
		"accepted by Move(i,i+1) and, on a fresh code, by Move(i+1,i). One-directional by design (missing edges are "+
		"C05's job). non-trivial = independent pair inside a block whose other instructions touch the same registers or "+
		"memories; distinct by (block rendering, pair index)")
	defer col.Flush()

	rapid.Check(t, func(t *rapid.T) {
		var p fmt.Stringer
		byAddr := map[uint64]*sIns{}
		var mk func() *deps.Code
		if uniformInt(t, 3, "realRiscvCode") == 0 {
			rp := drawRVProgram(t, 24)
			seq, err := buildRVSeq(rp)
			if err != nil {
				t.Fatalf("%v", err)
			}
			for _, in := range seq {
				d := &sIns{addr: uint64(in.Addr), effects: in.Effects, length: len(in.Bytes), typ: in.Type}
				for _, ef := range in.Effects {
					if rs, ok := ef.(expr.RegStore); ok && rs.Key() == expr.IPKey {
						// possible ip values, for the "terminating jump" clause
						for _, pv := range exprtransform.Possibilities(rs.Value()) {
							if c, ok := exprtransform.ConstFold(pv).(expr.Const); ok {
								a, _ := expr.ConstUint[uint64](c)
								d.ip = append(d.ip, ipTarget{true, a})
							} else {
								d.ip = append(d.ip, ipTarget{false, 0})
							}
						}
					}
				}
				d.describe()
				byAddr[d.addr] = d
			}
			mk = func() *deps.Code {
				c, err := deps.NewCode(model.Addr(rp.entry), seq)
				if err != nil {
					t.Fatalf("NewCode: %v\n  program %s", err, rp)
				}
				return c
			}
			p = rp
			col.Class("real-riscv-code")
		} else {
			sp := drawProgram(t, 4, 8)
			for _, s := range sp.ins {
				byAddr[s.addr] = s
			}
			mk = func() *deps.Code { return buildCode(t, sp) }
			p = sp
			col.Class("synthetic-code")
		}
		code1 := mk()
		nb := code1.Len()
		for bi := 0; bi < nb; bi++ {
			n := code1.Index(bi).Num()
			for i := 0; i+1 < n; i++ {
				col.Case()
				// fresh codes for each direction so moves do not interfere
				for dir := 0; dir < 2; dir++ {
					code := mk()
					b := code.Index(bi)
					ins := b.Instructions()
					a, c := byAddr[uint64(ins[i].OrigAddr())], byAddr[uint64(ins[i+1].OrigAddr())]
					last := byAddr[uint64(ins[n-1].OrigAddr())]
					term := i+1 == n-1 && last.realJump()
					why := c06Independent(a, c, term)
					if why != "" {
						if dir == 0 {
							col.Class("dependent/" + why)
						}
						break
					}
					from, to := i, i+1
					if dir == 1 {
						from, to = i+1, i
					}
					var err error
					if msg := catch(func() { err = b.Move(from, to) }); msg != "" {
						t.Fatalf("Move(%d,%d): %s\n  program %s", from, to, msg, p)
					}
					if err != nil {
						t.Fatalf("independent adjacent instructions cannot be swapped: Move(%d,%d) in block %d: %v\n  a = %s\n  b = %s\n  program %s",
							from, to, bi, err, a.text, c.text, p)
					}
					if dir == 0 {
						col.Class("independent")
						// other instructions of the block touching the same resources?
						busy := false
						for k, x := range ins {
							if k == i || k == i+1 {
								continue
							}
							o := byAddr[uint64(x.OrigAddr())]
							if keysIntersect(union(o.regsRead, o.regsWrite), union(union(a.regsRead, a.regsWrite), union(c.regsRead, c.regsWrite))) ||
								len(o.memRead)+len(o.memWrite) > 0 && len(a.memRead)+len(a.memWrite)+len(c.memRead)+len(c.memWrite) > 0 {
								busy = true
							}
						}
						if busy {
							col.Nontrivial(fmt.Sprintf("%s/%d/%d", p.String(), bi, i))
						}
					}
				}
			}
		}
		if col.WantSample() {
			col.Sample(p.String())
		} else {
			col.SkipSample()
		}
	})
}
