package checks

import (
	"fmt"
	"math/big"
	"testing"
	"unsafe"

	"mltwist/pkg/expr"
	"mltwist/verifharness/internal/ev"
	"mltwist/verifharness/internal/irsem"

	"golang.org/x/exp/constraints"
	"pgregory.net/rapid"
)

func c27DrawWidth(t *rapid.T) expr.Width {
	switch rapid.IntRange(0, 9).Draw(t, "wk") {
	case 0:
		return 255
	case 1:
		return 0
	case 2:
		return expr.Width(rapid.IntRange(0, 255).Draw(t, "wAny"))
	default:
		return expr.Width(rapid.IntRange(0, 16).Draw(t, "w"))
	}
}

// c27DrawU64 draws boundary-biased 64 bit patterns.
func c27DrawU64(t *rapid.T) (uint64, string) {
	k := rapid.IntRange(0, 8).Draw(t, "byteBoundary")
	var base uint64
	if k < 8 {
		base = uint64(1) << (8 * uint(k))
	}
	switch rapid.IntRange(0, 11).Draw(t, "vk") {
	case 0:
		return 0, "zero"
	case 1:
		return 1, "one"
	case 2:
		return ^uint64(0), "allones"
	case 3:
		return base, "2^8k"
	case 4:
		return base - 1, "2^8k-1"
	case 5:
		return base + 1, "2^8k+1"
	case 6:
		return base >> 1, "2^(8k-1)"
	case 7:
		return (base >> 1) - 1, "2^(8k-1)-1"
	case 8:
		return -(base >> 1), "-2^(8k-1)"
	case 9:
		return -(base >> 1) - 1, "-2^(8k-1)-1"
	case 10:
		return -base, "-2^8k"
	default:
		return rapid.Uint64().Draw(t, "rnd"), "random"
	}
}

func leBytes(v *big.Int, w int) []byte {
	// two's complement little endian of v in w bytes
	m := new(big.Int).Lsh(big.NewInt(1), uint(w)*8)
	x := new(big.Int).Mod(v, m)
	return irsem.ToBytes(x, expr.Width(w))
}

func c27Uint[T constraints.Unsigned](t *rapid.T, col *ev.Collector, name string) {
	raw, vclass := c27DrawU64(t)
	v := T(raw)
	w := c27DrawWidth(t)
	size := int(unsafe.Sizeof(v))
	bv := new(big.Int).SetUint64(uint64(v))
	fits := bv.BitLen() <= int(w)*8

	var c expr.Const
	msg := catch(func() { c = expr.NewConstUint(v, w) })
	desc := fmt.Sprintf("NewConstUint[%s](%d, %d)", name, v, w)
	if fits && msg != "" {
		t.Fatalf("%s must succeed: %s", desc, msg)
	}
	if !fits && msg == "" {
		t.Fatalf("%s must fail but returned %x", desc, c.Bytes())
	}
	if fits {
		if want := leBytes(bv, int(w)); string(want) != string(c.Bytes()) || c.Width() != w {
			t.Fatalf("%s = %x (width %d), want %x", desc, c.Bytes(), c.Width(), want)
		}
	}

	cf := expr.ConstFromUint(v)
	if want := leBytes(bv, size); string(want) != string(cf.Bytes()) || int(cf.Width()) != size {
		t.Fatalf("ConstFromUint[%s](%d) = %x, want %x", name, v, cf.Bytes(), want)
	}
	col.Class("uint/" + name)
	if int(w) < size && vclass != "random" && vclass != "zero" {
		col.Nontrivial(fmt.Sprintf("%s/%d/%s/%d", name, w, vclass, v))
	}
	if col.WantSample() {
		col.Sample(map[string]interface{}{"call": desc, "fits": fits, "panicked": msg != ""})
	} else {
		col.SkipSample()
	}
}

func c27Int[T constraints.Signed](t *rapid.T, col *ev.Collector, name string) {
	raw, vclass := c27DrawU64(t)
	v := T(raw)
	w := c27DrawWidth(t)
	size := int(unsafe.Sizeof(v))
	bv := big.NewInt(int64(v))

	// signed range of w bytes: [-2^(8w-1), 2^(8w-1)); for w == 0 only 0 is
	// representable.
	var fits bool
	if w == 0 {
		fits = bv.Sign() == 0
	} else {
		half := new(big.Int).Lsh(big.NewInt(1), uint(w)*8-1)
		neg := new(big.Int).Neg(half)
		fits = bv.Cmp(neg) >= 0 && bv.Cmp(half) < 0
	}

	var c expr.Const
	msg := catch(func() { c = expr.NewConstInt(v, w) })
	desc := fmt.Sprintf("NewConstInt[%s](%d, %d)", name, v, w)
	if fits && msg != "" {
		t.Fatalf("%s must succeed: %s", desc, msg)
	}
	if !fits && msg == "" {
		t.Fatalf("%s must fail (value outside the signed range of %d bytes) but returned %x", desc, w, c.Bytes())
	}
	if fits {
		if want := leBytes(bv, int(w)); string(want) != string(c.Bytes()) || c.Width() != w {
			t.Fatalf("%s = %x (width %d), want %x", desc, c.Bytes(), c.Width(), want)
		}
	}

	cf := expr.ConstFromInt(v)
	if want := leBytes(bv, size); string(want) != string(cf.Bytes()) || int(cf.Width()) != size {
		t.Fatalf("ConstFromInt[%s](%d) = %x, want %x", name, v, cf.Bytes(), want)
	}
	col.Class("int/" + name)
	if int(w) < size && vclass != "random" && vclass != "zero" {
		col.Nontrivial(fmt.Sprintf("%s/%d/%s/%d", name, w, vclass, v))
	}
	if col.WantSample() {
		col.Sample(map[string]interface{}{"call": desc, "fits": fits, "panicked": msg != ""})
	} else {
		col.SkipSample()
	}
}

func c27ReadBack[T constraints.Unsigned](t *rapid.T, col *ev.Collector, name string) {
	w := c27DrawWidth(t)
	bs := irsem.GenBytes(t, int(w), "bytes")
	c := expr.NewConst(bs, w)
	var zero T
	size := int(unsafe.Sizeof(zero))

	val := irsem.FromBytes(bs)
	wantFits := val.BitLen() <= size*8
	low := new(big.Int).And(val, new(big.Int).Sub(new(big.Int).Lsh(big.NewInt(1), uint(size)*8), big.NewInt(1)))

	var got T
	var ok bool
	if msg := catch(func() { got, ok = expr.ConstUint[T](c) }); msg != "" {
		t.Fatalf("ConstUint[%s](const %x of width %d): %s", name, bs, w, msg)
	}
	if new(big.Int).SetUint64(uint64(got)).Cmp(low) != 0 || ok != wantFits {
		t.Fatalf("ConstUint[%s](const %x of width %d) = (%d, %v), want (%d, %v)", name, bs, w, got, ok, low, wantFits)
	}
	col.Class("readback/" + name)
	if int(w) > size {
		col.Nontrivial(fmt.Sprintf("rb/%s/%x", name, bs))
	}
}

func c27Copy(t *rapid.T, col *ev.Collector) {
	w := c27DrawWidth(t)
	n := rapid.IntRange(0, 20).Draw(t, "srclen")
	if rapid.Bool().Draw(t, "samelen") {
		n = int(w)
	}
	src := irsem.GenBytes(t, n, "src")
	orig := cloneBytes(src)
	c := expr.NewConst(src, w)
	want := make([]byte, w)
	copy(want, orig)
	if string(c.Bytes()) != string(want) || c.Width() != w {
		t.Fatalf("NewConst(%x, %d) = %x", orig, w, c.Bytes())
	}
	for i := range src {
		src[i] ^= 0xa5
	}
	if string(c.Bytes()) != string(want) {
		t.Fatalf("NewConst(%x, %d) changed to %x after the caller modified its source slice", orig, w, c.Bytes())
	}

	// WithWidth keeps the low bytes / zero-extends and never changes c.
	w2 := c27DrawWidth(t)
	var c2 expr.Const
	if msg := catch(func() { c2 = c.WithWidth(w2) }); msg != "" {
		t.Fatalf("Const(%x).WithWidth(%d): %s", want, w2, msg)
	}
	want2 := make([]byte, w2)
	copy(want2, want)
	if string(c2.Bytes()) != string(want2) || c2.Width() != w2 {
		t.Fatalf("Const(%x).WithWidth(%d) = %x, want %x", want, w2, c2.Bytes(), want2)
	}
	if string(c.Bytes()) != string(want) {
		t.Fatalf("WithWidth modified its receiver")
	}
	if !c.Equal(expr.NewConst(want, w)) {
		t.Fatalf("Const.Equal is false for equal constants %x", want)
	}
	col.Class("copy")
	if n != int(w) {
		col.Nontrivial(fmt.Sprintf("copy/%d/%d/%x", w, w2, orig))
	}
}

// c27Chain re-widths one constant several times (narrowing and widening in any
// order) and compares every intermediate constant with a byte-slice model: the
// content is the low bytes, zero-extended. All constants of the chain are
// checked again at the end, so a later operation must not change an earlier
// result, and each is read back as uint64.
func c27Chain(t *rapid.T, col *ev.Collector) {
	w := c27DrawWidth(t)
	var c expr.Const
	var cur []byte
	var origin string
	switch rapid.IntRange(0, 3).Draw(t, "origin") {
	case 0:
		raw, _ := c27DrawU64(t)
		c, cur, origin = expr.ConstFromUint(raw), leBytes(new(big.Int).SetUint64(raw), 8), fmt.Sprintf("ConstFromUint[uint64](%#x)", raw)
	case 1:
		raw, _ := c27DrawU64(t)
		v := int32(raw)
		c, cur, origin = expr.ConstFromInt(v), leBytes(big.NewInt(int64(v)), 4), fmt.Sprintf("ConstFromInt[int32](%d)", v)
	case 2:
		raw, _ := c27DrawU64(t)
		v := uint32(raw)
		c, cur, origin = expr.NewConstUint(v, 4), leBytes(new(big.Int).SetUint64(uint64(v)), 4), fmt.Sprintf("NewConstUint[uint32](%#x, 4)", v)
	default:
		bs := irsem.GenBytes(t, int(w), "bytes")
		cur = cloneBytes(bs)
		c, origin = expr.NewConst(bs, w), fmt.Sprintf("NewConst(%x, %d)", cur, w)
	}
	type kept struct {
		c    expr.Const
		want []byte
		desc string
	}
	chain := []kept{{c, cur, origin}}
	narrowed, widenedAfter := false, false
	steps := rapid.IntRange(2, 6).Draw(t, "steps")
	desc := origin
	for i := 0; i < steps; i++ {
		var w2 expr.Width
		switch rapid.IntRange(0, 3).Draw(t, "stepKind") {
		case 0: // narrower than now
			w2 = expr.Width(rapid.IntRange(0, len(cur)).Draw(t, "narrow"))
		case 1: // back to some earlier width of the chain
			w2 = expr.Width(len(chain[rapid.IntRange(0, len(chain)-1).Draw(t, "back")].want))
		default:
			w2 = c27DrawWidth(t)
		}
		dropsNonzero := false
		for _, b := range cur[minInt(int(w2), len(cur)):] {
			dropsNonzero = dropsNonzero || b != 0
		}
		if int(w2) > len(cur) && narrowed {
			widenedAfter = true
		}
		narrowed = narrowed || dropsNonzero
		desc += fmt.Sprintf(".WithWidth(%d)", w2)
		var c2 expr.Const
		if msg := catch(func() { c2 = c.WithWidth(w2) }); msg != "" {
			t.Fatalf("%s: %s", desc, msg)
		}
		next := make([]byte, w2)
		copy(next, cur)
		if string(c2.Bytes()) != string(next) || c2.Width() != w2 {
			t.Fatalf("%s = %x, want %x (low bytes of %x, zero-extended)", desc, c2.Bytes(), next, cur)
		}
		c, cur = c2, next
		chain = append(chain, kept{c2, next, desc})
	}
	for _, k := range chain {
		if string(k.c.Bytes()) != string(k.want) {
			t.Fatalf("%s was %x and changed to %x by later steps of %s", k.desc, k.want, k.c.Bytes(), desc)
		}
		val := irsem.FromBytes(k.want)
		got, ok := expr.ConstUint[uint64](k.c)
		if got != new(big.Int).And(val, new(big.Int).SetUint64(^uint64(0))).Uint64() || ok != (val.BitLen() <= 64) {
			t.Fatalf("ConstUint[uint64](%s) = (%#x, %v), constant is %x", k.desc, got, ok, k.want)
		}
	}
	col.Class("chain")
	if widenedAfter {
		col.Class("chain/widened-after-dropping-nonzero-bytes")
		col.Nontrivial("chain/" + desc)
	}
}

func minInt(a, b int) int {
	if a < b {
		return a
	}
	return b
}

var colC27 *ev.Collector

// propC27 is the property of C27; it is shared by the rapid test and the native
// fuzz target.
func propC27(t *rapid.T) {
	col := colC27
	for n := 0; n < 8; n++ {
		col.Case()
		switch rapid.IntRange(0, 17).Draw(t, "which") {
		case 0:
			c27Uint[uint8](t, col, "uint8")
		case 1:
			c27Uint[uint16](t, col, "uint16")
		case 2:
			c27Uint[uint32](t, col, "uint32")
		case 3:
			c27Uint[uint64](t, col, "uint64")
		case 4:
			c27Uint[uint](t, col, "uint")
		case 5:
			c27Int[int8](t, col, "int8")
		case 6:
			c27Int[int16](t, col, "int16")
		case 7:
			c27Int[int32](t, col, "int32")
		case 8:
			c27Int[int64](t, col, "int64")
		case 9:
			c27Int[int](t, col, "int")
		case 10:
			c27ReadBack[uint8](t, col, "uint8")
		case 11:
			c27ReadBack[uint16](t, col, "uint16")
		case 12:
			c27ReadBack[uint32](t, col, "uint32")
		case 13:
			c27ReadBack[uint64](t, col, "uint64")
		case 14, 15:
			c27Chain(t, col)
		default:
			c27Copy(t, col)
		}
	}
}

func TestC27(t *testing.T) {
	runWitnesses(t, "C27")
	colC27 = ev.New("C27", "rapid: all 10 integer types x widths {0..16,255} and a tenth anywhere in 0..255 x boundary-biased values (0, +-1, +-2^(8k), "+
		"+-2^(8k)+-1, +-2^(8k-1), +-2^(8k-1)-1, all-ones, random); oracle = math/big range test and two's complement "+
		"encoding; plus read-back ConstUint[T] of arbitrary byte strings and copy semantics of NewConst/WithWidth; "+
		"plus chains of 2-6 WithWidth steps (narrowing, widening, returning to earlier widths) from constants of every constructor, "+
		"each intermediate compared with a byte model, re-checked after the whole chain and read back. "+
		"non-trivial = width narrower than the type with a boundary value, read-back of a constant wider than T, or "+
		"source length != width, or a chain that widens after it dropped non-zero bytes; distinct by (type,width,value)")
	col := colC27
	defer col.Flush()

	rapid.Check(t, propC27)
}

// FuzzC27 drives the same property with Go's coverage-guided fuzzer (thorough
// tier only; see DESIGN.md).
func FuzzC27(f *testing.F) { f.Fuzz(rapid.MakeFuzz(propC27)) }
