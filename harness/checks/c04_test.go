package checks

import (
	"fmt"
	"testing"

	"mltwist/internal/riscv"
	"mltwist/pkg/expr"
	"mltwist/pkg/model"
	"mltwist/verifharness/internal/ev"
	"mltwist/verifharness/internal/rvref"

	"pgregory.net/rapid"
)

func TestC04(t *testing.T) {
	col := ev.New("C04", "rapid: the RV64IMA programs of C03 run with lazily supplied state: a random subset of x1..x31 is "+
		"pre-populated, random byte ranges around the data window (inside and outside the program image) are pre-stored "+
		"in the writable layer, everything else is supplied by an instrumented provider. History invariant kept by a "+
		"model of known registers/bytes (initial knowledge + image + everything written + everything supplied): every "+
		"provider request must concern unknown state only (hence at most once per register and byte); after every step "+
		"the whole state and the step report must equal the reference machine whose unknown state is defined by the "+
		"supplied values (later reads observe them until overwritten). non-trivial = history with a memory request "+
		"covering only part of a load (rest known) or a register re-read after being supplied; distinct by program")
	defer col.Flush()
	if _, msg := rvParser(rv64ima); msg != "" {
		t.Fatalf("%s", msg)
	}
	maxSteps := ev.Scale(60, 200)

	rapid.Check(t, func(t *rapid.T) {
		col.Case()
		p := drawRVProgram(t, 30)
		h, err := newRVHarness(t, p, true)
		if err != nil {
			t.Fatalf("cannot build code model: %v\n  program %s", err, p)
		}
		// initial knowledge: registers
		for r := 1; r < 32; r++ {
			if r == 8 || r == 9 || uniformInt(t, 3, "knowReg") != 0 {
				continue
			}
			v := drawRegVal(t, 64, "initReg")
			key := expr.Key(fmt.Sprintf("x%d", r))
			h.ref.X[r] = v
			h.st.Regs.Store(key, expr.ConstFromUint(v), 8)
			h.knownReg[key] = true
		}
		// initial knowledge: memory ranges
		for i, n := 0, uniformInt(t, 5, "nRanges"); i < n; i++ {
			w := 1 + uniformInt(t, 8, "rangeW")
			a := uint64(rvDataBase) - 12 + uint64(uniformInt(t, rvDataLen+24, "rangeOff"))
			bs := make([]byte, w)
			for k := range bs {
				bs[k] = byte(rapid.IntRange(0, 255).Draw(t, "initByte"))
				h.ref.Mem.Write(a+uint64(k), bs[k])
				h.knownByte[a+uint64(k)] = true
			}
			h.st.Mems.Store(riscv.MemoryKey, model.Addr(a), expr.NewConst(bs, expr.Width(w)), expr.Width(w))
		}

		steps := 1 + uniformInt(t, maxSteps, "steps")
		partial, reread := false, false
		suppliedReg := map[string]bool{}
		for i := 0; i < steps; i++ {
			nReg, nMem := len(h.prov.regCalls), len(h.prov.memCalls)
			done, msg := h.step(true)
			if len(h.problems) > 0 {
				t.Fatalf("%v (provider calls so far: registers %v memory %v)\n  program %s", h.problems, h.prov.regCalls, h.prov.memCalls, p)
			}
			if msg != "" {
				t.Fatalf("%s\n  program %s", msg, p)
			}
			if done {
				break
			}
			tr := h.lastTrace
			for _, c := range h.prov.memCalls[nMem:] {
				var a uint64
				var w int
				fmt.Sscanf(c, "%x/%d", &a, &w)
				for _, ld := range tr.Loads {
					if a >= ld.Addr && a+uint64(w) <= ld.Addr+uint64(ld.Width) && w < ld.Width {
						partial = true
					}
				}
			}
			for r := range tr.RegsRead {
				k := fmt.Sprintf("x%d", r)
				if suppliedReg[k] {
					reread = true
				}
			}
			for _, c := range h.prov.regCalls[nReg:] {
				var k string
				var w int
				fmt.Sscanf(c, "%s", &k)
				for j := range k {
					if k[j] == '/' {
						k = k[:j]
						break
					}
				}
				_ = w
				suppliedReg[k] = true
			}
		}
		switch {
		case partial && reread:
			col.Class("partial-memory-request+register-reread")
			col.Nontrivial(p.String())
		case partial:
			col.Class("partial-memory-request")
			col.Nontrivial(p.String())
		case reread:
			col.Class("register-reread")
			col.Nontrivial(p.String())
		default:
			col.Class("plain")
		}
		col.AddExtra("provider_register_requests", int64(len(h.prov.regCalls)))
		col.AddExtra("provider_memory_requests", int64(len(h.prov.memCalls)))
		col.AddExtra("emulated_steps", int64(h.steps))
		if col.WantSample() {
			col.Sample(map[string]interface{}{"program": p.String(), "register_requests": h.prov.regCalls, "memory_requests": h.prov.memCalls})
		} else {
			col.SkipSample()
		}
	})
	_ = rvref.Decode
}
