package checks

import (
	"fmt"
	"math/big"
	"strings"
	"sync"
	"testing"

	"mltwist/internal/riscv"
	"mltwist/pkg/expr"
	"mltwist/pkg/model"
	"mltwist/verifharness/internal/ev"
	"mltwist/verifharness/internal/irsem"
	"mltwist/verifharness/internal/rvref"

	"pgregory.net/rapid"
)

const x0Poison = 0xdeadbeefcafef00d

// rvEnv presents a reference machine state as an irsem.Env for lifted effects.
type rvEnv struct {
	m *rvref.Machine
	// csrNum is the CSR number of the instruction evaluated (or -1).
	csrNum int
	// csrKeys collects non-x register keys read.
	otherKeys map[expr.Key]bool
	badKeys   []string
}

func xregNum(k expr.Key) (int, bool) {
	s := string(k)
	if len(s) < 2 || s[0] != 'x' {
		return 0, false
	}
	n := 0
	for _, c := range s[1:] {
		if c < '0' || c > '9' {
			return 0, false
		}
		n = n*10 + int(c-'0')
	}
	if n > 31 || (len(s) > 2 && s[1] == '0') {
		return 0, false
	}
	return n, true
}

func (e *rvEnv) Reg(k expr.Key) *big.Int {
	if n, ok := xregNum(k); ok {
		if n == 0 {
			return new(big.Int).SetUint64(x0Poison)
		}
		return new(big.Int).SetUint64(e.m.X[n])
	}
	if k == expr.IPKey {
		e.badKeys = append(e.badKeys, "read of the instruction pointer register")
		return new(big.Int)
	}
	e.otherKeys[k] = true
	if e.csrNum < 0 {
		e.badKeys = append(e.badKeys, fmt.Sprintf("read of unknown register %q", k))
		return new(big.Int)
	}
	return new(big.Int).SetUint64(e.m.CSR[uint32(e.csrNum)])
}

func (e *rvEnv) MemByte(k expr.Key, addr *big.Int) byte {
	if k != riscv.MemoryKey {
		e.badKeys = append(e.badKeys, fmt.Sprintf("load from unknown memory %q", k))
	}
	a := new(big.Int).And(addr, new(big.Int).SetUint64(^uint64(0))).Uint64()
	return e.m.Mem.Read(a)
}

var (
	csrMapMu    sync.Mutex
	csrNumToKey = map[uint32]expr.Key{}
	csrKeyToNum = map[expr.Key]uint32{}
)

// checkCSRKey enforces that CSR number -> key is one injective function shared
// by all CSR instructions and both variants.
func checkCSRKey(num uint32, key expr.Key) string {
	csrMapMu.Lock()
	defer csrMapMu.Unlock()
	if k, ok := csrNumToKey[num]; ok && k != key {
		return fmt.Sprintf("CSR number 0x%x is mapped to register %q and to %q", num, k, key)
	}
	if n, ok := csrKeyToNum[key]; ok && n != num {
		return fmt.Sprintf("CSR numbers 0x%x and 0x%x share the register %q", n, num, key)
	}
	if _, ok := xregNum(key); ok || key == expr.IPKey || key == "" {
		return fmt.Sprintf("CSR number 0x%x is mapped to the non-CSR register %q", num, key)
	}
	csrNumToKey[num], csrKeyToNum[key] = key, num
	return ""
}

func hashMemByte(seed uint64) func(uint64) byte {
	return func(a uint64) byte {
		x := (a + seed) * 0x9e3779b97f4a7c15
		x ^= x >> 29
		x *= 0xbf58476d1ce4e5b9
		x ^= x >> 32
		switch x % 7 {
		case 0:
			return 0
		case 1:
			return 0xff
		case 2:
			return 0x80
		case 3:
			return 0x7f
		}
		return byte(x >> 8)
	}
}

// drawRegVal draws a boundary-biased XLEN-bit register value.
func drawRegVal(t *rapid.T, xlen int, label string) uint64 {
	var v uint64
	switch rapid.IntRange(0, 13).Draw(t, label+"k") {
	case 0:
		v = 0
	case 1:
		v = 1
	case 2:
		v = ^uint64(0)
	case 3:
		v = 1 << uint(xlen-1) // MIN
	case 4:
		v = 1<<uint(xlen-1) - 1 // MAX
	case 5:
		v = 1 << 31
	case 6:
		v = 1<<31 - 1
	case 7:
		v = 0xffffffff
	case 8:
		v = uint64(rapid.IntRange(0, 70).Draw(t, label+"small"))
	case 9:
		v = -uint64(rapid.IntRange(1, 70).Draw(t, label+"neg"))
	case 10:
		v = 1 << uint(rapid.IntRange(0, xlen-1).Draw(t, label+"bit"))
	case 11:
		v = rapid.Uint64().Draw(t, label+"r")&0xffffffff00000000 | 0x80000000 | uint64(rapid.Uint32().Draw(t, label+"lo"))
	default:
		v = rapid.Uint64().Draw(t, label+"r")
	}
	if xlen == 32 {
		v &= 0xffffffff
	}
	return v
}

func drawReg(t *rapid.T, label string, prev ...uint32) uint32 {
	switch rapid.IntRange(0, 5).Draw(t, label+"k") {
	case 0:
		return 0
	case 1:
		if len(prev) > 0 {
			return prev[rapid.IntRange(0, len(prev)-1).Draw(t, label+"same")]
		}
	}
	return uint32(rapid.IntRange(0, 31).Draw(t, label))
}

func drawImm(t *rapid.T, bits uint, label string) int64 {
	min, max := -(int64(1) << (bits - 1)), int64(1)<<(bits-1)-1
	switch rapid.IntRange(0, 9).Draw(t, label+"k") {
	case 0:
		return 0
	case 1:
		return 1
	case 2:
		return -1
	case 3:
		return min
	case 4:
		return max
	case 5:
		return int64(rapid.IntRange(-64, 64).Draw(t, label+"small"))
	}
	return rapid.Int64Range(min, max).Draw(t, label)
}

// drawFields draws operand fields for in with boundary bias.
func drawFields(t *rapid.T, in *rvref.Ins) rvref.Fields {
	var f rvref.Fields
	f.Rs1 = drawReg(t, "rs1")
	f.Rs2 = drawReg(t, "rs2", f.Rs1)
	f.Rd = drawReg(t, "rd", f.Rs1, f.Rs2)
	switch in.Fmt {
	case rvref.FmtI, rvref.FmtLoad, rvref.FmtJALR, rvref.FmtS:
		f.Imm = drawImm(t, 12, "imm")
	case rvref.FmtB:
		f.Imm = drawImm(t, 13, "imm") &^ 1
	case rvref.FmtU:
		f.Imm = drawImm(t, 32, "imm") &^ 0xfff
	case rvref.FmtJ:
		f.Imm = drawImm(t, 21, "imm") &^ 1
	case rvref.FmtShift:
		f.Shamt = uint32(rapid.IntRange(0, 1<<uint(in.ShamtBits)-1).Draw(t, "shamt"))
	case rvref.FmtCSR, rvref.FmtCSRI:
		switch rapid.IntRange(0, 4).Draw(t, "csrk") {
		case 0:
			f.Csr = 0
		case 1:
			f.Csr = 0xfff
		case 2:
			f.Csr = 0x800
		case 3:
			f.Csr = 0x7ff
		default:
			f.Csr = uint32(rapid.IntRange(0, 0xfff).Draw(t, "csr"))
		}
		f.Uimm = uint32(rapid.IntRange(0, 31).Draw(t, "uimm"))
	}
	f.Aq, f.Rl = rapid.Bool().Draw(t, "aq"), rapid.Bool().Draw(t, "rl")
	f.Pred, f.Succ = uint32(rapid.IntRange(0, 15).Draw(t, "pred")), uint32(rapid.IntRange(0, 15).Draw(t, "succ"))
	return f
}

func drawAddr(t *rapid.T, xlen int) uint64 {
	var a uint64
	switch rapid.IntRange(0, 9).Draw(t, "addrk") {
	case 0:
		a = 0
	case 1:
		a = 4
	case 2:
		a = 1<<31 - 4
	case 3:
		a = 1 << 31
	case 4:
		a = 1<<32 - 4
	case 5:
		a = 1 << 63
	case 6:
		a = ^uint64(0) - 3
	case 7:
		a = uint64(rapid.IntRange(0, 1<<20).Draw(t, "addrSmall")) &^ 3
	default:
		a = rapid.Uint64().Draw(t, "addr") &^ 3
	}
	if xlen == 32 {
		a &= 0xffffffff
	}
	return a
}

// machineFor builds a reference machine with boundary-biased registers.
func machineFor(t *rapid.T, cfg rvref.Cfg, in *rvref.Ins, f rvref.Fields, pc uint64) *rvref.Machine {
	m := &rvref.Machine{Cfg: cfg, PC: pc, CSR: map[uint32]uint64{}}
	seed := rapid.Uint64().Draw(t, "stateSeed")
	fill := hashMemByte(seed)
	for i := 1; i < 32; i++ {
		// cheap default for registers not involved
		var v uint64
		for k := 0; k < 8; k++ {
			v |= uint64(fill(uint64(i*8+k))) << (8 * uint(k))
		}
		if cfg.XLEN == 32 {
			v &= 0xffffffff
		}
		m.X[i] = v
	}
	m.X[0] = 0
	for _, r := range []uint32{f.Rs1, f.Rs2, f.Rd} {
		if r != 0 {
			m.X[r] = drawRegVal(t, cfg.XLEN, fmt.Sprintf("x%d", r))
		}
	}
	// division / multiplication corner pairs
	if in.Ext == 'M' && f.Rs1 != 0 && f.Rs2 != 0 && f.Rs1 != f.Rs2 && rapid.IntRange(0, 2).Draw(t, "mcorner") == 0 {
		min := uint64(1) << uint(cfg.XLEN-1)
		switch rapid.IntRange(0, 3).Draw(t, "mcase") {
		case 0:
			m.X[f.Rs1], m.X[f.Rs2] = min, ^uint64(0)
		case 1:
			m.X[f.Rs2] = 0
		case 2: // W variants: MIN32 / -1 with garbage above
			m.X[f.Rs1], m.X[f.Rs2] = 0xabcdef0080000000, 0x12345678ffffffff
		default:
			m.X[f.Rs1] = -uint64(rapid.IntRange(1, 1000).Draw(t, "negdividend"))
			m.X[f.Rs2] = uint64(rapid.IntRange(1, 50).Draw(t, "posdivisor"))
		}
		if cfg.XLEN == 32 {
			m.X[f.Rs1] &= 0xffffffff
			m.X[f.Rs2] &= 0xffffffff
		}
	}
	if in.Fmt == rvref.FmtCSR || in.Fmt == rvref.FmtCSRI {
		m.CSR[f.Csr] = drawRegVal(t, cfg.XLEN, "csrval")
	}
	m.Mem = &rvref.MapMem{Default: fill}
	return m
}

// liftedResult is what applying the lifted effects does to the machine.
type liftedResult struct {
	xw      map[uint32]uint64
	csrW    map[expr.Key]uint64
	mem     map[uint64]byte
	ip      uint64
	ipSet   bool
	problem string
}

// applyLifted applies effects on top of machine m (not modified).
func applyLifted(effects []expr.Effect, m *rvref.Machine, csrNum int) (*liftedResult, *rvEnv) {
	env := &rvEnv{m: m, csrNum: csrNum, otherKeys: map[expr.Key]bool{}}
	st := irsem.NewState(env)
	res := &liftedResult{xw: map[uint32]uint64{}, csrW: map[expr.Key]uint64{}, mem: map[uint64]byte{}}
	var ws []irsem.Write
	if msg := catch(func() { ws = st.Apply(effects, 8) }); msg != "" {
		res.problem = "evaluating effects: " + msg
		return res, env
	}
	xlenBytes := expr.Width(m.Cfg.XLEN / 8)
	for _, w := range ws {
		if w.Reg {
			if w.Key == expr.IPKey {
				if res.ipSet {
					res.problem = "instruction pointer written twice"
				}
				res.ip, res.ipSet = w.Value.Uint64(), true
				if w.Width != xlenBytes {
					res.problem = fmt.Sprintf("instruction pointer written with width %d", w.Width)
				}
				continue
			}
			if n, ok := xregNum(w.Key); ok {
				if n == 0 {
					res.problem = "register x0 is written"
				}
				if w.Width > xlenBytes {
					res.problem = fmt.Sprintf("register %s written with width %d", w.Key, w.Width)
				}
				res.xw[uint32(n)] = w.Value.Uint64()
				continue
			}
			res.csrW[w.Key] = w.Value.Uint64()
			continue
		}
		if w.Key != riscv.MemoryKey {
			res.problem = fmt.Sprintf("store to unknown memory %q", w.Key)
		}
		bs := irsem.ToBytes(w.Value, w.Width)
		for i, b := range bs {
			res.mem[w.Addr.Uint64()+uint64(i)] = b
		}
	}
	return res, env
}

// structuralX0 reports a read of x0 anywhere in the effects.
func structuralX0(effects []expr.Effect) string {
	bad := ""
	for _, ef := range effects {
		var es []expr.Expr
		switch x := ef.(type) {
		case expr.RegStore:
			es = []expr.Expr{x.Value()}
			if x.Key() == "x0" {
				bad = "effect writes x0"
			}
		case expr.MemStore:
			es = []expr.Expr{x.Addr(), x.Value()}
		}
		for _, e := range es {
			irsem.Walk(e, func(n expr.Expr) {
				if r, ok := n.(expr.RegLoad); ok && r.Key() == "x0" {
					bad = "expression reads x0"
				}
			})
		}
	}
	return bad
}

// compareStep compares reference trace/machine after Step with the lifted result.
func compareStep(res *liftedResult, env *rvEnv, before, after *rvref.Machine, tr *rvref.Trace, f rvref.Fields, addr uint64) string {
	if res.problem != "" {
		return res.problem
	}
	if len(env.badKeys) > 0 {
		return strings.Join(env.badKeys, "; ")
	}
	msk := ^uint64(0)
	if before.Cfg.XLEN == 32 {
		msk = 0xffffffff
	}
	// registers
	for r, v := range tr.RegsWrite {
		got, ok := res.xw[r]
		if !ok {
			return fmt.Sprintf("reference writes x%d = 0x%x, lifted effects do not write it", r, v)
		}
		if got != v {
			return fmt.Sprintf("x%d: lifted 0x%x, reference 0x%x", r, got, v)
		}
	}
	for r, v := range res.xw {
		if _, ok := tr.RegsWrite[r]; !ok {
			return fmt.Sprintf("lifted effects write x%d = 0x%x, reference does not write it", r, v)
		}
	}
	// instruction pointer
	next := (addr + 4) & msk
	if res.ipSet {
		next = res.ip
	}
	if next != tr.NextPC {
		return fmt.Sprintf("next instruction pointer: lifted 0x%x (ip written: %v), reference 0x%x", next, res.ipSet, tr.NextPC)
	}
	// CSRs
	if len(tr.CSRWrite) != len(res.csrW) {
		return fmt.Sprintf("reference writes %d CSRs, lifted effects write %d other registers %v", len(tr.CSRWrite), len(res.csrW), res.csrW)
	}
	for num, v := range tr.CSRWrite {
		for key, got := range res.csrW {
			if got != v {
				return fmt.Sprintf("CSR 0x%x (register %q): lifted 0x%x, reference 0x%x", num, key, got, v)
			}
			if msg := checkCSRKey(num, key); msg != "" {
				return msg
			}
			for k := range env.otherKeys {
				if k != key {
					return fmt.Sprintf("CSR instruction on 0x%x reads register %q but writes %q", num, k, key)
				}
			}
		}
	}
	if len(tr.CSRWrite) == 0 && len(env.otherKeys) > 0 {
		return fmt.Sprintf("non-CSR instruction reads registers %v", env.otherKeys)
	}
	// memory
	want := map[uint64]byte{}
	for _, s := range tr.Stores {
		for i := 0; i < s.Width; i++ {
			want[(s.Addr+uint64(i))&msk] = byte(s.Value >> (8 * uint(i)))
		}
	}
	if len(want) != len(res.mem) {
		return fmt.Sprintf("reference stores %d bytes, lifted effects store %d bytes", len(want), len(res.mem))
	}
	for a, b := range want {
		if g, ok := res.mem[a]; !ok || g != b {
			return fmt.Sprintf("memory byte 0x%x: lifted %02x (present %v), reference %02x", a, g, ok, b)
		}
	}
	return ""
}

// straddles tells whether an access of the trace crosses the end of the
// address space (behaviour left to the execution environment).
func straddles(tr *rvref.Trace, xlen int) bool {
	for _, acc := range append(append([]rvref.MemAccess{}, tr.Loads...), tr.Stores...) {
		end := acc.Addr + uint64(acc.Width)
		if xlen == 32 && end > 1<<32 {
			return true
		}
		if xlen == 64 && end < acc.Addr {
			return true
		}
	}
	return false
}

func cloneMachine(m *rvref.Machine) *rvref.Machine {
	c := *m
	c.CSR = map[uint32]uint64{}
	for k, v := range m.CSR {
		c.CSR[k] = v
	}
	mm := m.Mem.(*rvref.MapMem)
	nm := &rvref.MapMem{Default: mm.Default, M: map[uint64]byte{}}
	for k, v := range mm.M {
		nm.M[k] = v
	}
	c.Mem = nm
	return &c
}

func signPat(v uint64, xlen int) string {
	if xlen == 32 {
		v = uint64(int64(int32(uint32(v))))
	}
	switch {
	case v == 0:
		return "0"
	case int64(v) < 0:
		return "-"
	}
	return "+"
}

func TestC01(t *testing.T) {
	runWitnesses(t, "C01")
	col := ev.New("C01", "rapid: configuration (RV32/RV64 x {-,M,A,MA}) x mnemonic drawn uniformly from an independent "+
		"reference table x operand fields biased to {x0, same register in several roles, distinct} and immediates "+
		"{0,+-1,min,max,small,random}, all shift amounts, CSR numbers incl. 0x7ff/0x800/0xfff x instruction address in "+
		"{0,4,2^31-4,2^31,2^32-4,2^63,2^64-4,random} x machine state with boundary-biased operand registers (explicit "+
		"division/multiplication corner pairs), hash-defined other registers and memory; 20% uniformly random words that "+
		"the front end accepts. Oracle: lifted effects applied by an independent math/big evaluator (all evaluated in the "+
		"pre-state, x0 poisoned) versus an independent RISC-V interpreter: every register written, the next instruction "+
		"pointer, CSR write, every memory byte stored; x0 never read/written; CSR number -> register key is one injective "+
		"function. Accesses straddling the end of the address space are excluded (environment-defined). non-trivial = "+
		"(configuration, mnemonic, immediate sign, x0 pattern, branch direction, operand signs) class; distinct classes counted")
	defer col.Flush()
	if _, msg := rvParser(rvref.Cfg{XLEN: 64}); msg != "" {
		t.Fatalf("%s", msg)
	}

	rapid.Check(t, func(t *rapid.T) {
		for rep := 0; rep < 4; rep++ {
			col.Case()
			cfg := drawCfg(t)
			p, _ := rvParser(cfg)
			var in *rvref.Ins
			var word uint32
			var f rvref.Fields
			if rapid.IntRange(0, 4).Draw(t, "randomWord") == 0 {
				word = rapid.Uint32().Draw(t, "word")
				in = rvref.Decode(word, cfg)
				if in == nil {
					col.Class("random-word-rejected")
					continue
				}
				f = rvref.Dec(in, word)
			} else {
				in = drawIns(t, cfg)
				f = drawFields(t, in)
				word = rvref.Enc(in, f)
				f = rvref.Dec(in, word)
			}
			addr := drawAddr(t, cfg.XLEN)
			m := machineFor(t, cfg, in, f, addr)
			before := cloneMachine(m)

			var ins model.Instruction
			var err error
			if msg := catch(func() { ins, err = p.Parse(model.Addr(addr), wordBytes(word)) }); msg != "" {
				t.Fatalf("%s: Parse(0x%x, %08x %s): %s", cfg, addr, word, in.Name, msg)
			}
			if err != nil {
				t.Fatalf("%s: word %08x (%s) rejected: %v", cfg, word, in.Name, err)
			}
			tr := m.Step(word)
			if straddles(tr, cfg.XLEN) {
				col.Excluded("access-straddles-end-of-address-space")
				continue
			}
			csrNum := -1
			if in.Fmt == rvref.FmtCSR || in.Fmt == rvref.FmtCSRI {
				csrNum = int(f.Csr)
			}
			res, env := applyLifted(ins.Effects, before, csrNum)
			desc := func() string {
				return fmt.Sprintf("%s at 0x%x: %08x = %s rd=x%d rs1=x%d(0x%x) rs2=x%d(0x%x) imm=%d shamt=%d csr=0x%x uimm=%d; text %q; effects %s",
					cfg, addr, word, in.Name, f.Rd, f.Rs1, before.X[f.Rs1], f.Rs2, before.X[f.Rs2], f.Imm, f.Shamt, f.Csr, f.Uimm,
					ins.Details.String(), effectsString(ins))
			}
			if msg := structuralX0(ins.Effects); msg != "" {
				t.Fatalf("%s: %s", msg, desc())
			}
			if msg := compareStep(res, env, before, m, tr, f, addr); msg != "" {
				t.Fatalf("%s\n  %s", msg, desc())
			}
			if ins.ByteLen != 4 {
				t.Fatalf("ByteLen %d: %s", ins.ByteLen, desc())
			}

			immS := "0"
			if f.Imm < 0 {
				immS = "-"
			} else if f.Imm > 0 {
				immS = "+"
			}
			x0p := fmt.Sprintf("%v%v%v", f.Rd == 0, f.Rs1 == 0, f.Rs2 == 0)
			taken := tr.NextPC != (addr+4)&map[int]uint64{32: 0xffffffff, 64: ^uint64(0)}[cfg.XLEN]
			col.Class(in.Name)
			col.Class("cfg/" + cfg.String())
			col.Nontrivial(fmt.Sprintf("%s/%s/%s/%s/%v/%s%s", cfg, in.Name, immS, x0p, taken,
				signPat(before.X[f.Rs1], cfg.XLEN), signPat(before.X[f.Rs2], cfg.XLEN)))
			if col.WantSample() {
				col.Sample(desc())
			} else {
				col.SkipSample()
			}
		}
	})
}
