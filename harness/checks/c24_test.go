package checks

import (
	"fmt"
	"strings"
	"testing"

	"mltwist/internal/consoleui"
	"mltwist/internal/consoleui/disassemble"
	"mltwist/internal/consoleui/emulate"
	"mltwist/internal/deps"
	"mltwist/internal/riscv"
	"mltwist/internal/state"
	"mltwist/internal/state/memory"
	"mltwist/pkg/expr"
	"mltwist/pkg/model"
	"mltwist/verifharness/internal/ev"
	"mltwist/verifharness/internal/irsem"

	"pgregory.net/rapid"
)

// c24Render prints view v with a granted height drawn from its declared
// range and checks the number of lines written.
func c24Render(t *rapid.T, v consoleui.VerifView, what string, desc string) string {
	return c24RenderOpt(t, v, what, desc, false)
}

// c24RenderOpt: mayReject tells that the view state contains values the view
// documents as not renderable (registers wider than the columns), so an error
// instead of output is acceptable even for a fixed-height view.
func c24RenderOpt(t *rapid.T, v consoleui.VerifView, what string, desc string, mayReject bool) string {
	min, max := v.MinLines(), v.MaxLines()
	if min < 0 {
		min = 0
	}
	var n int
	switch {
	case max < 0:
		n = min + uniformInt(t, 81, "grant")
	case max < min:
		n = min
	default:
		switch uniformInt(t, 4, "grantClass") {
		case 0:
			n = min
		case 1:
			n = max
		default:
			n = min + uniformInt(t, max-min+1, "grant")
		}
	}
	var crash string
	var err error
	out := captureStdout(func() { crash = catch(func() { err = v.Print(n) }) })
	if crash != "" {
		return fmt.Sprintf("%s: Print(%d) (declared min %d max %d) crashed: %s (%s)", what, n, min, max, crash, desc)
	}
	lines := strings.Count(out, "\n")
	if err != nil {
		// An error is not a crash. But a view that declares a fixed height and is
		// granted exactly that height has to write that many lines.
		if max >= 0 && max <= min && n == min && !mayReject && !strings.HasPrefix(what, "screen") {
			return fmt.Sprintf("%s: view declares a fixed height of %d lines, was granted %d, but wrote %d lines and failed: %v (%s)", what, min, n, lines, err, desc)
		}
		return ""
	}
	if lines > n {
		return fmt.Sprintf("%s: Print(%d) wrote %d lines (declared min %d max %d) (%s)\n%s", what, n, lines, min, max, desc, out)
	}
	// The command prompt is not one of the view states of the statement (it
	// writes a partial line the user completes), so compositions containing it
	// are only checked against the granted height.
	if max >= 0 && max <= min && lines != n && !strings.HasPrefix(what, "screen") {
		return fmt.Sprintf("%s: view declares a fixed height of %d lines but wrote %d (%s)\n%s", what, min, lines, desc, out)
	}
	return ""
}

func TestC24(t *testing.T) {
	runWitnesses(t, "C24")
	col := ev.New("C24", "rapid: view states of the real UI: (a) listing view of the disassembler mode over synthetic programs "+
		"(3-70 lines) with the cursor on any line; (b) register view over 0-40 constant registers of widths 1-16 with and "+
		"without the instruction pointer register; (c) memory view over the memories of C32 with the cursor on any row; "+
		"(d) the emulation mode view (listing + registers) after 0-5 steps; each rendered with a granted height drawn from "+
		"[min,max] (min when max<min, [min,min+80] when unbounded), biased to both ends. Oracle: no panic; an error (not for a fixed-height view granted its height, unless it holds registers wider than 8 bytes) or at "+
		"most the granted number of lines; exactly the declared number for fixed-height views. non-trivial = cursor in the "+
		"last third of a listing longer than the grant, listing shorter than the minimum, or >=3 registers with the "+
		"instruction pointer present; distinct by view description")
	defer col.Flush()

	rapid.Check(t, func(t *rapid.T) {
		col.Case()
		switch uniformInt(t, 4, "viewKind") {
		case 0: // listing
			synthTune(8, 30)
			p := drawProgram(t, 6, 10)
			synthTune(4, 14)
			code := buildCode(t, p)
			ui, err := newSynthUI(code)
			if err != nil {
				t.Fatalf("%v", err)
			}
			lines := len(renderCode(code))
			cur := uniformInt(t, lines, "cursor")
			if uniformInt(t, 3, "lastThird") == 0 {
				cur = lines - 1 - uniformInt(t, lines/3+1, "fromEnd")
			}
			uiExec(ui, fmt.Sprintf("goto %d", cur))
			desc := fmt.Sprintf("listing of %d lines, cursor %d", lines, cur)
			if msg := c24Render(t, ui.VerifModeView(), "listing view", desc); msg != "" {
				t.Fatalf("%s", msg)
			}
			if msg := c24Render(t, ui.VerifScreen(), "screen (listing + prompt)", desc); msg != "" {
				t.Fatalf("%s", msg)
			}
			col.Class("listing")
			if col.WantSample() {
				col.Sample(desc)
			} else {
				col.SkipSample()
			}
			if lines < 5 || cur > lines*2/3 {
				col.Nontrivial(desc)
			}
		case 1: // registers
			st := state.New()
			n := uniformInt(t, 41, "nregs")
			wide := false
			for i := 0; i < n; i++ {
				w := expr.Width(1 + uniformInt(t, 8, "rw"))
				if uniformInt(t, 12, "wideReg") == 0 {
					w = expr.Width(9 + uniformInt(t, 8, "rwWide"))
					wide = true
				}
				st.Regs.Store(expr.Key(fmt.Sprintf("r%d", i)), irsem.GenConst(t, w, "rv"), w)
			}
			ip := uniformInt(t, 2, "ip") == 0
			if ip {
				st.Regs.Store(expr.IPKey, expr.ConstFromUint[uint64](0x1000), 8)
			}
			desc := fmt.Sprintf("%d registers, ip=%v, wider than 8 bytes=%v", n, ip, wide)
			if msg := c24RenderOpt(t, emulate.VerifRegView(st), "register view", desc, wide); msg != "" {
				t.Fatalf("%s", msg)
			}
			col.Class(fmt.Sprintf("registers/ip=%v", ip))
			if col.WantSample() {
				col.Sample(desc)
			} else {
				col.SkipSample()
			}
			if n >= 3 && ip {
				col.Nontrivial(desc)
			}
		case 2: // memory view
			mem, byteModel, desc := c32Memory(t)
			p := &rvProgram{words: []uint32{0x00000013, 0x0000006f}, text: []string{"nop", "jal"}, data: make([]byte, rvDataLen), entry: rvCodeBase}
			code, _ := buildRVCode(p)
			emulF := func(c *deps.Code, ip model.Addr) (consoleui.Mode, error) {
				return emulate.New(c, ip, &state.State{Regs: state.NewRegMap(), Mems: memory.MemMap{riscv.MemoryKey: memory.NewSparse(), "k": mem}})
			}
			ui, err := consoleui.New(disassemble.New(code, emulF))
			if err != nil {
				t.Fatalf("%v", err)
			}
			for _, c := range []string{"entrypoint", "emulate", "memory k"} {
				uiExec(ui, c)
			}
			uiExec(ui, fmt.Sprintf("goto %d", uniformInt(t, 30, "row")))
			if msg := c24Render(t, ui.VerifModeView(), "memory view", desc); msg != "" {
				t.Fatalf("%s", msg)
			}
			if msg := c24Render(t, ui.VerifScreen(), "screen (memory view + prompt)", desc); msg != "" {
				t.Fatalf("%s", msg)
			}
			col.Class("memory")
			if col.WantSample() {
				col.Sample(desc)
			} else {
				col.SkipSample()
			}
			if len(byteModel) > 0 {
				col.Nontrivial(desc)
			}
		default: // emulation mode: listing + registers
			// a quarter of the programs is tiny (1-3 instructions): listing and
			// registers together then have a fixed height
			p := drawRVProgramMin(t, []int{1, 4, 4, 4}[uniformInt(t, 4, "tinyProgram")], 30)
			if uniformInt(t, 8, "veryTiny") == 0 {
				p = drawRVProgramMin(t, 1, 3)
			}
			ui, _, err := newProgramUI(p)
			if err != nil {
				t.Fatalf("%v", err)
			}
			uiInput.dflt = "4096"
			uiExec(ui, "entrypoint")
			uiExec(ui, "emulate")
			steps := uniformInt(t, 6, "steps")
			for i := 0; i < steps; i++ {
				uiExec(ui, "s")
			}
			uiInput.dflt = "0"
			if ui.VerifModeName() != "emulate" {
				t.Fatalf("not in emulation mode")
			}
			desc := fmt.Sprintf("emulation after %d steps of %s", steps, p)
			if msg := c24Render(t, ui.VerifModeView(), "emulation view", desc); msg != "" {
				t.Fatalf("%s", msg)
			}
			if msg := c24Render(t, ui.VerifScreen(), "screen (emulation + prompt)", desc); msg != "" {
				t.Fatalf("%s", msg)
			}
			col.Class("emulation")
			if col.WantSample() {
				col.Sample(desc)
			} else {
				col.SkipSample()
			}
			if steps >= 2 {
				col.Nontrivial(desc)
			}
		}
	})
}
