package checks

import (
	"testing"

	"mltwist/internal/state/memory"
	"mltwist/verifharness/internal/ev"

	"pgregory.net/rapid"
)

func TestC14(t *testing.T) {
	runWitnesses(t, "C14")
	col := ev.New("C14", "rapid state machine over memory.Sparse: stores of constant and symbolic values (value width "+
		"<,=,> store width 1..32) at addresses in a 48-byte window (at 1000, at 0 and at 2^64-300, never wrapping) so "+
		"that writes overlap partially, nest and abut; loads, Missing and Blocks queries on arbitrary sub-ranges. "+
		"Reference: byte map address -> (stored value, byte index); a successful load is evaluated under 2 valuations by "+
		"the math/big evaluator and compared with the little-endian assembly of the model bytes; every expression "+
		"handed to or returned by the memory is snapshot-compared after every step. non-trivial = history with a load "+
		"whose first/last covering store is overlapped asymmetrically after >=1 partial overwrite; distinct by history")
	defer col.Flush()

	rapid.Check(t, func(t *rapid.T) {
		col.Case()
		top := newMemModel()
		win := memWindows[rapid.IntRange(0, len(memWindows)-1).Draw(t, "window")]
		c := &memChecker{
			mem:   memory.NewSparse(),
			view:  memView{layers: []*memModel{top}},
			top:   top,
			win:   win,
			seeds: []uint64{drawEnvSeed(t, "env1"), drawEnvSeed(t, "env2")},
			maxW:  memMaxWidth(win, 32),
		}
		t.Repeat(map[string]func(*rapid.T){
			"store":   c.store,
			"store2":  c.store,
			"load":    c.load,
			"load2":   c.load,
			"missing": c.missing,
			"blocks":  c.blocks,
		})
		switch {
		case c.asymLoad && c.partialOverwrite:
			col.Class("asymmetric-load-after-partial-overwrite")
			col.Nontrivial(c.hist.String())
		case c.partialOverwrite:
			col.Class("partial-overwrite")
		default:
			col.Class("simple")
		}
		if c.multiPiece {
			col.Class("load-of->=3-pieces")
		}
		if col.WantSample() {
			col.Sample(c.hist.String())
		} else {
			col.SkipSample()
		}
	})
}
