package checks

import (
	"fmt"
	"sort"
	"testing"

	"mltwist/internal/state/memory"
	"mltwist/pkg/expr"
	"mltwist/pkg/model"
	"mltwist/verifharness/internal/ev"
	"mltwist/verifharness/internal/irsem"

	"pgregory.net/rapid"
)

func TestC16(t *testing.T) {
	col := ev.New("C16", "rapid state machine over memory.Overlay(base, Sparse): base is a Bytes memory built from a "+
		"random non-overlapping layout or a Sparse memory pre-filled with constant/symbolic stores (dense layouts with pieces of up to 250 bytes in the 600-byte windows, so that reads wider than 32 bytes are served by both layers); then stores (constant "+
		"or symbolic), loads, Missing and Blocks on the overlay over a 48-byte or 600-byte window (widths up to 200 bytes there). Reference: two byte maps, overlay "+
		"first; base content, base Blocks() and all handed/returned expressions re-compared after every step. "+
		"non-trivial = a load assembled from >=3 alternating pieces or a Missing query crossing >=2 gaps; distinct by history")
	defer col.Flush()

	rapid.Check(t, func(t *rapid.T) {
		col.Case()
		win := memWindows[rapid.IntRange(0, len(memWindows)-1).Draw(t, "window")]
		baseModel := newMemModel()
		var base memory.Memory
		baseKind := "bytes"
		if rapid.Bool().Draw(t, "baseSparse") {
			baseKind = "sparse"
			sp := memory.NewSparse()
			n := rapid.IntRange(0, 5).Draw(t, "nbase")
			dense := win.size >= 600 && rapid.Bool().Draw(t, "denseBase")
			if dense {
				n = rapid.IntRange(3, 14).Draw(t, "nbaseDense")
			}
			for i := 0; i < n; i++ {
				// non-overlapping pre-fill keeps the base independent of partial-overwrite logic
				w := rapid.IntRange(1, 8).Draw(t, "bw")
				if dense {
					w = rapid.IntRange(1, 120).Draw(t, "bwDense")
				}
				off := rapid.IntRange(0, win.size-w).Draw(t, "boff")
				clash := false
				for k := 0; k < w; k++ {
					if baseModel.has(win.base + uint64(off+k)) {
						clash = true
					}
				}
				if clash {
					continue
				}
				var v expr.Expr
				if rapid.Bool().Draw(t, "bconst") {
					v = irsem.GenConst(t, expr.Width(w), "bv")
				} else {
					v = expr.NewRegLoad(irsem.RegKeys[i%4], expr.Width(w))
				}
				sp.Store(model.Addr(win.base+uint64(off)), v, expr.Width(w))
				baseModel.store(win.base+uint64(off), v, expr.Width(w))
			}
			base = sp
		} else {
			layout, overlap := c15Layout(t, win)
			if overlap {
				layout = nil
			}
			in := make([]memory.ByteBlock, len(layout))
			for i, b := range layout {
				in[i] = b
			}
			bm, err := memory.NewBytes(in)
			if err != nil {
				t.Fatalf("NewBytes(%v): %v", layout, err)
			}
			sorted := append([]c15Block(nil), layout...)
			sort.Slice(sorted, func(i, j int) bool { return sorted[i].begin < sorted[j].begin })
			for _, b := range sorted {
				for i, by := range b.bytes {
					baseModel.store(b.begin+uint64(i), expr.NewConst([]byte{by}, 1), 1)
				}
			}
			base = bm
		}
		baseBlocks := ivString(base.Blocks())
		baseView := memView{layers: []*memModel{baseModel}}

		top := newMemModel()
		ov := memory.NewOverlay(base, memory.NewSparse())
		c := &memChecker{
			mem:   ov,
			view:  memView{layers: []*memModel{top, baseModel}},
			top:   top,
			win:   win,
			seeds: []uint64{drawEnvSeed(t, "env1"), drawEnvSeed(t, "env2")},
			maxW:  memMaxWidth(win, 24),
		}
		fmt.Fprintf(&c.hist, "base(%s)%s;", baseKind, baseBlocks)
		gaps2 := false
		t.Repeat(map[string]func(*rapid.T){
			"store":  c.store,
			"store2": c.store,
			"load":   c.load,
			"load2":  c.load,
			"missing": func(t *rapid.T) {
				hl := c.hist.Len()
				c.missing(t)
				var addr uint64
				var w int
				fmt.Sscanf(c.hist.String()[hl:], "missing(%x,%d)", &addr, &w)
				gaps, prev := 0, true
				for i := 0; i < w; i++ {
					cur := c.view.has(addr + uint64(i))
					if !cur && prev {
						gaps++
					}
					prev = cur
				}
				if gaps >= 2 {
					gaps2 = true
				}
			},
			"blocks": c.blocks,
			"": func(t *rapid.T) {
				// the base must never change
				if g := ivString(base.Blocks()); g != baseBlocks {
					t.Fatalf("base Blocks() changed from %s to %s (history %s)", baseBlocks, g, c.hist.String())
				}
				for _, a := range baseView.addrSet() {
					got, ok := base.Load(model.Addr(a), 1)
					if !ok {
						t.Fatalf("base lost byte %x (history %s)", a, c.hist.String())
					}
					env := irsem.NewHashEnv(c.seeds[0])
					if irsem.Eval(got, env).Uint64() != uint64(baseModel.byteVal(a, env)) {
						t.Fatalf("base byte %x changed (history %s)", a, c.hist.String())
					}
				}
			},
		})
		switch {
		case c.multiPiece && gaps2:
			col.Class(baseKind + "/multi-piece-load+multi-gap-missing")
			col.Nontrivial(c.hist.String())
		case c.multiPiece:
			col.Class(baseKind + "/multi-piece-load")
			col.Nontrivial(c.hist.String())
		case gaps2:
			col.Class(baseKind + "/multi-gap-missing")
			col.Nontrivial(c.hist.String())
		default:
			col.Class(baseKind + "/simple")
		}
		if col.WantSample() {
			col.Sample(c.hist.String())
		} else {
			col.SkipSample()
		}
	})
}
