package checks

import (
	"fmt"
	"strings"
	"testing"

	"mltwist/internal/exprtransform"
	"mltwist/pkg/expr"
	"mltwist/verifharness/internal/ev"
	"mltwist/verifharness/internal/irsem"

	"pgregory.net/rapid"
)

// c28Rebuild returns e with the node at pre-order index idx replaced by
// f(node). cnt is the running pre-order counter.
func c28Rebuild(e expr.Expr, idx int, cnt *int, f func(expr.Expr) expr.Expr) expr.Expr {
	me := *cnt
	*cnt++
	if me == idx {
		// still advance the counter over the subtree
		irsem.Walk(e, func(expr.Expr) {})
		return f(e)
	}
	switch x := e.(type) {
	case expr.Binary:
		a1 := c28Rebuild(x.Arg1(), idx, cnt, f)
		a2 := c28Rebuild(x.Arg2(), idx, cnt, f)
		return expr.NewBinary(x.Op(), a1, a2, x.Width())
	case expr.Less:
		a1 := c28Rebuild(x.Arg1(), idx, cnt, f)
		a2 := c28Rebuild(x.Arg2(), idx, cnt, f)
		et := c28Rebuild(x.ExprTrue(), idx, cnt, f)
		ef := c28Rebuild(x.ExprFalse(), idx, cnt, f)
		return expr.NewLess(a1, a2, et, ef, x.Width())
	case expr.MemLoad:
		return expr.NewMemLoad(x.Key(), c28Rebuild(x.Addr(), idx, cnt, f), x.Width())
	}
	return e
}

func c28NodeAt(e expr.Expr, idx int) expr.Expr {
	var res expr.Expr
	i := 0
	irsem.Walk(e, func(x expr.Expr) {
		if i == idx {
			res = x
		}
		i++
	})
	return res
}

func otherWidth(t *rapid.T, w expr.Width) expr.Width {
	for {
		n := irsem.GenWidth(t, irsem.GenCfg{}, "mutw")
		if n != w {
			return n
		}
	}
}

// c28Mutate changes exactly one node of e (shallowly) and returns the mutant
// with a description, or ok=false if the drawn mutation does not apply.
func c28Mutate(t *rapid.T, e expr.Expr) (expr.Expr, string, bool) {
	n := irsem.Size(e)
	idx := rapid.IntRange(0, n-1).Draw(t, "mutIdx")
	// a third of the time prefer a conditional or a memory load, which are rare among nodes
	if rapid.IntRange(0, 2).Draw(t, "preferRare") == 0 {
		var rare []int
		i := 0
		irsem.Walk(e, func(x expr.Expr) {
			switch x.(type) {
			case expr.Less, expr.MemLoad:
				rare = append(rare, i)
			}
			i++
		})
		if len(rare) > 0 {
			idx = rare[rapid.IntRange(0, len(rare)-1).Draw(t, "rareIdx")]
		}
	}
	node := c28NodeAt(e, idx)
	kind := rapid.IntRange(0, 3).Draw(t, "mutKind")
	var desc string
	ok := true
	f := func(x expr.Expr) expr.Expr {
		switch v := x.(type) {
		case expr.Const:
			switch kind {
			case 0, 1:
				bs := cloneBytes(v.Bytes())
				i := rapid.IntRange(0, len(bs)-1).Draw(t, "byteIdx")
				bs[i] ^= byte(1) << uint(rapid.IntRange(0, 7).Draw(t, "bit"))
				desc = "const byte"
				return expr.NewConst(bs, v.Width())
			default:
				desc = "const width"
				return expr.NewConst(v.Bytes(), otherWidth(t, v.Width()))
			}
		case expr.RegLoad:
			if kind <= 1 {
				desc = "reg key"
				return expr.NewRegLoad(v.Key()+"x", v.Width())
			}
			desc = "reg width"
			return expr.NewRegLoad(v.Key(), otherWidth(t, v.Width()))
		case expr.MemLoad:
			if kind <= 1 {
				desc = "mem key"
				return expr.NewMemLoad(v.Key()+"x", v.Addr(), v.Width())
			}
			desc = "mem width"
			return expr.NewMemLoad(v.Key(), v.Addr(), otherWidth(t, v.Width()))
		case expr.Binary:
			switch kind {
			case 0:
				desc = "binary op"
				op := v.Op()%6 + 1
				return expr.NewBinary(op, v.Arg1(), v.Arg2(), v.Width())
			case 1:
				desc = "binary width"
				return expr.NewBinary(v.Op(), v.Arg1(), v.Arg2(), otherWidth(t, v.Width()))
			default:
				if irsem.String(v.Arg1()) == irsem.String(v.Arg2()) {
					ok = false
					return x
				}
				desc = "binary args swapped"
				return expr.NewBinary(v.Op(), v.Arg2(), v.Arg1(), v.Width())
			}
		case expr.Less:
			switch kind {
			case 0:
				desc = "less width"
				return expr.NewLess(v.Arg1(), v.Arg2(), v.ExprTrue(), v.ExprFalse(), otherWidth(t, v.Width()))
			case 1:
				if irsem.String(v.Arg1()) == irsem.String(v.Arg2()) {
					ok = false
					return x
				}
				desc = "less compared args swapped"
				return expr.NewLess(v.Arg2(), v.Arg1(), v.ExprTrue(), v.ExprFalse(), v.Width())
			case 2:
				if irsem.String(v.ExprTrue()) == irsem.String(v.ExprFalse()) {
					ok = false
					return x
				}
				desc = "less branches swapped"
				return expr.NewLess(v.Arg1(), v.Arg2(), v.ExprFalse(), v.ExprTrue(), v.Width())
			default:
				desc = "less false branch replaced"
				return expr.NewLess(v.Arg1(), v.Arg2(), v.ExprTrue(), expr.NewRegLoad("mutant", v.ExprFalse().Width()), v.Width())
			}
		}
		ok = false
		return x
	}
	cnt := 0
	m := c28Rebuild(e, idx, &cnt, f)
	_ = node
	return m, desc, ok
}

func c28Kind(e expr.Expr) string {
	switch e.(type) {
	case expr.Const:
		return "Const"
	case expr.RegLoad:
		return "RegLoad"
	case expr.MemLoad:
		return "MemLoad"
	case expr.Binary:
		return "Binary"
	case expr.Less:
		return "Less"
	}
	return "?"
}

func c28RefFind(e expr.Expr, kind string) []string {
	var out []string
	irsem.Walk(e, func(x expr.Expr) {
		if c28Kind(x) == kind {
			out = append(out, irsem.String(x))
		}
	})
	return out
}

// c28RefReplace is the reference bottom-up rewrite.
func c28RefReplace(e expr.Expr, kind string, f func(expr.Expr) (expr.Expr, bool)) expr.Expr {
	var r expr.Expr
	switch x := e.(type) {
	case expr.Binary:
		r = expr.NewBinary(x.Op(), c28RefReplace(x.Arg1(), kind, f), c28RefReplace(x.Arg2(), kind, f), x.Width())
	case expr.Less:
		r = expr.NewLess(c28RefReplace(x.Arg1(), kind, f), c28RefReplace(x.Arg2(), kind, f),
			c28RefReplace(x.ExprTrue(), kind, f), c28RefReplace(x.ExprFalse(), kind, f), x.Width())
	case expr.MemLoad:
		r = expr.NewMemLoad(x.Key(), c28RefReplace(x.Addr(), kind, f), x.Width())
	default:
		r = e
	}
	if c28Kind(r) == kind {
		if n, ok := f(r); ok {
			return n
		}
	}
	return r
}

func c28FindReplace[T expr.Expr](t *rapid.T, col *ev.Collector, e expr.Expr, kind string) {
	before := irsem.String(e)

	var found []T
	if msg := catch(func() { found = exprtransform.FindAll[T](e) }); msg != "" {
		t.Fatalf("FindAll[%s](%s): %s", kind, before, msg)
	}
	want := c28RefFind(e, kind)
	if len(found) != len(want) {
		t.Fatalf("FindAll[%s](%s) returned %d nodes, want %d", kind, before, len(found), len(want))
	}
	for i := range want {
		if got := irsem.String(found[i]); got != want[i] {
			t.Fatalf("FindAll[%s](%s)[%d] = %s, want %s (pre-order)", kind, before, i, got, want[i])
		}
	}

	// replacement policy
	policy := rapid.IntRange(0, 3).Draw(t, "policy")
	calls := 0
	mk := func(x expr.Expr) (expr.Expr, bool) {
		calls++
		switch policy {
		case 0:
			return nil, false
		case 1:
			return expr.NewRegLoad(expr.Key(fmt.Sprintf("repl%d", irsem.Size(x))), x.Width()), true
		case 2:
			if x.Width()%2 == 0 {
				return expr.NewBinary(expr.Nand, x, x, x.Width()), true
			}
			return nil, false
		default:
			if irsem.Size(x)%2 == 1 {
				return expr.NewConst([]byte{0x5a}, x.Width()), true
			}
			return nil, false
		}
	}
	var got expr.Expr
	if msg := catch(func() {
		got = exprtransform.ReplaceAll(e, func(x T) (expr.Expr, bool) { return mk(x) })
	}); msg != "" {
		t.Fatalf("ReplaceAll[%s](%s): %s", kind, before, msg)
	}
	gotCalls := calls
	calls = 0
	ref := c28RefReplace(e, kind, mk)
	if irsem.String(got) != irsem.String(ref) {
		t.Fatalf("ReplaceAll[%s](%s) policy %d = %s, reference bottom-up rewrite gives %s", kind, before, policy, irsem.String(got), irsem.String(ref))
	}
	_ = gotCalls // how often the function is consulted is not part of the statement
	if irsem.String(e) != before {
		t.Fatalf("ReplaceAll modified its argument")
	}
	if policy == 0 || len(want) == 0 {
		if !exprtransform.Equal(got, e) || irsem.String(got) != before {
			t.Fatalf("ReplaceAll[%s](%s) with nothing replaced returned a different tree %s", kind, before, irsem.String(got))
		}
	}
	col.Class("findreplace/" + kind)
	if len(want) >= 2 && policy != 0 {
		col.Nontrivial("fr/" + kind + "/" + before + fmt.Sprint(policy))
	}
}

var colC28 *ev.Collector

// propC28 is the property of C28; it is shared by the rapid test and the native
// fuzz target.
func propC28(t *rapid.T) {
	col := colC28
	col.Case()
	cfg := irsem.GenCfg{MaxDepth: rapid.IntRange(0, ev.Scale(4, 6)).Draw(t, "depth"), GadgetProb: 10}
	e := irsem.GenExpr(t, cfg)
	before := irsem.String(e)

	// Equal
	cl := irsem.Clone(e)
	var eq bool
	if msg := catch(func() { eq = exprtransform.Equal(e, cl) && exprtransform.Equal(cl, e) }); msg != "" {
		t.Fatalf("Equal(%s, clone): %s", before, msg)
	}
	if !eq {
		t.Fatalf("Equal(%s, deep clone) is false", before)
	}
	if m, desc, ok := c28Mutate(t, e); ok {
		ms := irsem.String(m)
		if ms == before {
			t.Fatalf("harness bug: mutation %q did not change %s", desc, before)
		}
		var eq1, eq2 bool
		if msg := catch(func() { eq1, eq2 = exprtransform.Equal(e, m), exprtransform.Equal(m, e) }); msg != "" {
			t.Fatalf("Equal(%s, %s): %s", before, ms, msg)
		}
		if eq1 || eq2 {
			t.Fatalf("Equal is true for different trees (mutation: %s):\n  %s\n  %s", desc, before, ms)
		}
		col.Class("mutant/" + desc)
		if irsem.Size(e) > 1 {
			col.Nontrivial("mut/" + before + "/" + ms)
		}
	}

	// FindAll / ReplaceAll
	switch rapid.IntRange(0, 4).Draw(t, "T") {
	case 0:
		c28FindReplace[expr.Const](t, col, e, "Const")
	case 1:
		c28FindReplace[expr.RegLoad](t, col, e, "RegLoad")
	case 2:
		c28FindReplace[expr.MemLoad](t, col, e, "MemLoad")
	case 3:
		c28FindReplace[expr.Binary](t, col, e, "Binary")
	default:
		c28FindReplace[expr.Less](t, col, e, "Less")
	}

	// effects
	nEff := rapid.IntRange(0, 3).Draw(t, "nEff")
	var effs []expr.Effect
	var wantExprs []string
	for i := 0; i < nEff; i++ {
		v := irsem.GenExpr(t, irsem.GenCfg{MaxDepth: 1})
		w := irsem.GenWidth(t, irsem.GenCfg{}, "ew")
		if rapid.Bool().Draw(t, "isMem") {
			a := irsem.GenExpr(t, irsem.GenCfg{MaxDepth: 1})
			effs = append(effs, expr.NewMemStore(v, irsem.MemKeys[i%2], a, w))
			wantExprs = append(wantExprs, irsem.String(a), irsem.String(v))
		} else {
			k := irsem.RegKeys[i%4]
			if rapid.IntRange(0, 4).Draw(t, "ip") == 0 {
				k = expr.IPKey
			}
			effs = append(effs, expr.NewRegStore(v, k, w))
			wantExprs = append(wantExprs, irsem.String(v))
		}
	}
	var gotExprs []string
	for _, x := range exprtransform.ExprsMany(effs) {
		gotExprs = append(gotExprs, irsem.String(x))
	}
	sortedEq := func(a, b []string) bool {
		if len(a) != len(b) {
			return false
		}
		cnt := map[string]int{}
		for _, s := range a {
			cnt[s]++
		}
		for _, s := range b {
			cnt[s]--
		}
		for _, v := range cnt {
			if v != 0 {
				return false
			}
		}
		return true
	}
	if !sortedEq(gotExprs, wantExprs) {
		t.Fatalf("ExprsMany(%v) = %v, want the operand expressions %v", effStrings(effs), gotExprs, wantExprs)
	}
	wrap := func(x expr.Expr) expr.Expr { return expr.NewBinary(expr.Nand, x, expr.One, x.Width()) }
	applied := exprtransform.EffectsApply(effs, wrap)
	if len(applied) != len(effs) {
		t.Fatalf("EffectsApply changed the number of effects")
	}
	for i, ef := range effs {
		var single []string
		for _, x := range exprtransform.Exprs(ef) {
			single = append(single, irsem.String(x))
		}
		switch o := ef.(type) {
		case expr.RegStore:
			if len(single) != 1 || single[0] != irsem.String(o.Value()) {
				t.Fatalf("Exprs(%s) = %v", irsem.EffectString(ef), single)
			}
			n, ok := applied[i].(expr.RegStore)
			if !ok || n.Key() != o.Key() || n.Width() != o.Width() ||
				irsem.String(n.Value()) != irsem.String(wrap(o.Value())) {
				t.Fatalf("EffectApply(%s) = %s", irsem.EffectString(ef), irsem.EffectString(applied[i]))
			}
		case expr.MemStore:
			if len(single) != 2 || !sortedEq(single, []string{irsem.String(o.Addr()), irsem.String(o.Value())}) {
				t.Fatalf("Exprs(%s) = %v", irsem.EffectString(ef), single)
			}
			n, ok := applied[i].(expr.MemStore)
			if !ok || n.Key() != o.Key() || n.Width() != o.Width() ||
				irsem.String(n.Value()) != irsem.String(wrap(o.Value())) ||
				irsem.String(n.Addr()) != irsem.String(wrap(o.Addr())) {
				t.Fatalf("EffectApply(%s) = %s", irsem.EffectString(ef), irsem.EffectString(applied[i]))
			}
		}
	}
	if nEff > 0 {
		col.Class(fmt.Sprintf("effects/%d", nEff))
	}
	if col.WantSample() {
		col.Sample(map[string]interface{}{"expr": before, "effects": effStrings(effs)})
	} else {
		col.SkipSample()
	}
}

func TestC28(t *testing.T) {
	colC28 = ev.New("C28", "rapid: expression trees (depth <= 4, all node kinds); Equal on (e, deep clone) and on "+
		"(e, single-node mutant: op, width, key, constant bit/width, swapped distinct children, replaced branch); "+
		"FindAll[T]/ReplaceAll[T] for T in {Const,RegLoad,MemLoad,Binary,Less} against an own pre-order walker and "+
		"bottom-up reference rewrite with 4 replacement policies; Exprs/ExprsMany/EffectApply/EffectsApply on "+
		"generated register and memory stores. non-trivial = mutant of an inner node, or find/replace with >=2 "+
		"matching nodes and a replacing policy; distinct by tree rendering")
	col := colC28
	defer col.Flush()

	rapid.Check(t, propC28)
}

// FuzzC28 drives the same property with Go's coverage-guided fuzzer (thorough
// tier only; see DESIGN.md).
func FuzzC28(f *testing.F) { f.Fuzz(rapid.MakeFuzz(propC28)) }

func effStrings(effs []expr.Effect) []string {
	out := make([]string, len(effs))
	for i, ef := range effs {
		out[i] = irsem.EffectString(ef)
	}
	return out
}

var _ = strings.Join
