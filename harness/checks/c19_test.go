package checks

import (
	"fmt"
	"testing"

	"mltwist/internal/opcode"
	"mltwist/verifharness/internal/ev"

	"pgregory.net/rapid"
)

type c19Pat struct {
	id int
	o  opcode.Opcode
}

func (p *c19Pat) Opcode() opcode.Opcode { return p.o }
func (p *c19Pat) Name() string          { return fmt.Sprintf("p%d", p.id) }
func (p *c19Pat) String() string        { return fmt.Sprintf("p%d{b=%x m=%x}", p.id, p.o.Bytes, p.o.Mask) }

func c19WellFormed(o opcode.Opcode) bool {
	return len(o.Bytes) > 0 && len(o.Bytes) == len(o.Mask) && o.Mask[len(o.Mask)-1] != 0
}

// c19Conflict: some byte string is matched by both patterns.
func c19Conflict(p, q opcode.Opcode) bool {
	n := len(p.Bytes)
	if len(q.Bytes) < n {
		n = len(q.Bytes)
	}
	for k := 0; k < n; k++ {
		if (p.Bytes[k]^q.Bytes[k])&p.Mask[k]&q.Mask[k] != 0 {
			return false
		}
	}
	return true
}

func c19Matches(p opcode.Opcode, s []byte) bool {
	if len(p.Bytes) > len(s) {
		return false
	}
	for k := range p.Bytes {
		if (p.Bytes[k]^s[k])&p.Mask[k] != 0 {
			return false
		}
	}
	return true
}

func c19Byte(t *rapid.T, label string) byte {
	switch rapid.IntRange(0, 5).Draw(t, label+"k") {
	case 0:
		return 0x00
	case 1:
		return 0x0f
	case 2:
		return 0xf0
	case 3:
		return 0xff
	}
	return rapid.Byte().Draw(t, label)
}

func c19DrawPattern(t *rapid.T, id int, prev []*c19Pat) *c19Pat {
	// derive from a previous pattern by changing one bit of bytes or mask
	if len(prev) > 0 && rapid.IntRange(0, 2).Draw(t, "derive") == 0 {
		src := prev[rapid.IntRange(0, len(prev)-1).Draw(t, "src")]
		if c19WellFormed(src.o) {
			b, m := cloneBytes(src.o.Bytes), cloneBytes(src.o.Mask)
			k := rapid.IntRange(0, len(b)-1).Draw(t, "dk")
			bit := byte(1) << uint(rapid.IntRange(0, 7).Draw(t, "dbit"))
			switch rapid.IntRange(0, 3).Draw(t, "dwhat") {
			case 0:
				b[k] ^= bit
			case 1:
				m[k] ^= bit
			case 2: // extend by one byte
				b = append(b, c19Byte(t, "eb"))
				m = append(m, c19Byte(t, "em"))
			default: // shorten
				if len(b) > 1 {
					b, m = b[:len(b)-1], m[:len(m)-1]
				}
			}
			return &c19Pat{id, opcode.Opcode{Bytes: b, Mask: m}}
		}
	}
	n := rapid.IntRange(1, 4).Draw(t, "plen")
	b, m := make([]byte, n), make([]byte, n)
	for i := range b {
		b[i], m[i] = c19Byte(t, "b"), c19Byte(t, "m")
	}
	if m[n-1] == 0 {
		m[n-1] = 0x80
	}
	if rapid.IntRange(0, 23).Draw(t, "malformed") == 0 {
		switch rapid.IntRange(0, 5).Draw(t, "mk") {
		case 0:
			b, m = nil, nil
		case 1:
			m = m[:len(m)-1] // mask shorter than the bytes
		case 2:
			b = b[:len(b)-1] // bytes shorter than the mask (no bytes at all for n == 1)
		case 3:
			m = append(m, c19Byte(t, "mExtra")|1) // mask longer than the bytes
		case 4:
			b = append(b, c19Byte(t, "bExtra")) // bytes longer than the mask
		default:
			m[n-1] = 0
		}
	}
	return &c19Pat{id, opcode.Opcode{Bytes: b, Mask: m}}
}

var colC19 *ev.Collector

// propC19 is the property of C19; it is shared by the rapid test and the native
// fuzz target.
func propC19(t *rapid.T) {
	col := colC19
	col.Case()
	n := rapid.IntRange(1, 8).Draw(t, "npat")
	var pats []*c19Pat
	for i := 0; i < n; i++ {
		pats = append(pats, c19DrawPattern(t, i, pats))
	}
	desc := fmt.Sprint(pats)

	allWF := true
	for _, p := range pats {
		if !c19WellFormed(p.o) {
			allWF = false
		}
	}
	conflict := ""
	partial, difflen := false, false
	if allWF {
		for i := range pats {
			for j := i + 1; j < len(pats); j++ {
				p, q := pats[i].o, pats[j].o
				if c19Conflict(p, q) && conflict == "" {
					conflict = fmt.Sprintf("%s and %s", pats[i], pats[j])
				}
				if len(p.Bytes) != len(q.Bytes) {
					difflen = true
				} else {
					pq, qp := false, false
					for k := range p.Mask {
						if p.Mask[k]&^q.Mask[k] != 0 {
							pq = true
						}
						if q.Mask[k]&^p.Mask[k] != 0 {
							qp = true
						}
					}
					if pq && qp {
						partial = true
					}
				}
			}
		}
	}

	var m *opcode.Matcher[*c19Pat]
	var err error
	if msg := catch(func() { m, err = opcode.NewMatcher(pats) }); msg != "" {
		t.Fatalf("NewMatcher(%s): %s", desc, msg)
	}
	wantOK := allWF && conflict == ""
	if wantOK && err != nil {
		t.Fatalf("NewMatcher(%s) failed although all patterns are well formed and unambiguous: %v", desc, err)
	}
	if !wantOK && err == nil {
		if !allWF {
			t.Fatalf("NewMatcher(%s) accepted a malformed pattern", desc)
		}
		t.Fatalf("NewMatcher(%s) accepted ambiguous patterns %s", desc, conflict)
	}
	switch {
	case !allWF:
		col.Class("malformed")
	case conflict != "":
		col.Class("ambiguous")
	default:
		col.Class("accepted")
	}
	if allWF && (partial || difflen) {
		col.Nontrivial(desc)
		if partial {
			col.Class("partially-overlapping-masks")
		}
		if difflen {
			col.Class("different-lengths")
		}
	}
	if err != nil {
		return
	}

	for k := 0; k < 12; k++ {
		var s []byte
		switch rapid.IntRange(0, 3).Draw(t, "sk") {
		case 0:
			s = rapid.SliceOfN(rapid.Byte(), 0, 6).Draw(t, "srnd")
		default:
			p := pats[rapid.IntRange(0, len(pats)-1).Draw(t, "sp")].o
			s = make([]byte, len(p.Bytes))
			for i := range s {
				s[i] = (p.Bytes[i] & p.Mask[i]) | (rapid.Byte().Draw(t, "dc") &^ p.Mask[i])
			}
			switch rapid.IntRange(0, 3).Draw(t, "smod") {
			case 0:
				i := rapid.IntRange(0, len(s)-1).Draw(t, "fi")
				s[i] ^= byte(1) << uint(rapid.IntRange(0, 7).Draw(t, "fb"))
			case 1:
				s = append(s, rapid.SliceOfN(rapid.Byte(), 0, 3).Draw(t, "tail")...)
			case 2:
				s = s[:rapid.IntRange(0, len(s)).Draw(t, "cut")]
			}
		}
		var want *c19Pat
		for _, p := range pats {
			if c19Matches(p.o, s) {
				if want != nil {
					t.Fatalf("harness bug: %x matches both %s and %s", s, want, p)
				}
				want = p
			}
		}
		var got *c19Pat
		var ok bool
		if msg := catch(func() { got, ok = m.Match(s) }); msg != "" {
			t.Fatalf("Match(%x) on %s: %s", s, desc, msg)
		}
		if (want != nil) != ok || (ok && got != want) {
			t.Fatalf("Match(%x) on %s = (%v, %v), want %v", s, desc, got, ok, want)
		}
		if want != nil {
			col.Class("match/hit")
		} else {
			col.Class("match/miss")
		}
	}
	if col.WantSample() {
		col.Sample(desc)
	} else {
		col.SkipSample()
	}
}

func TestC19(t *testing.T) {
	runWitnesses(t, "C19")
	colC19 = ev.New("C19", "rapid: sets of 1-8 opcode patterns of length 1-4 with bytes/masks from {00,0f,f0,ff,random}, "+
		"don't-care bits set in Bytes, 1/24 malformed (empty, bytes shorter or longer than the mask, zero last mask byte), 1/3 derived from an "+
		"earlier pattern by one bit of bytes/mask or by lengthening/shortening; NewMatcher must succeed iff all patterns "+
		"are well formed and no two agree on their common mask bits over the common prefix; on success 12 byte strings "+
		"(pattern instances with random don't-cares, one-bit neighbours, random, lengths 0-6) must match exactly the "+
		"linear-scan reference. non-trivial = set with two patterns of different length or partially overlapping masks "+
		"(neither mask a subset of the other); distinct by pattern set")
	col := colC19
	defer col.Flush()

	rapid.Check(t, propC19)
}

// FuzzC19 drives the same property with Go's coverage-guided fuzzer (thorough
// tier only; see DESIGN.md).
func FuzzC19(f *testing.F) { f.Fuzz(rapid.MakeFuzz(propC19)) }
