package checks

import (
	"fmt"
	"math"
	"regexp"
	"strings"
	"testing"

	"mltwist/verifharness/internal/ev"

	"pgregory.net/rapid"
)

func TestC31(t *testing.T) {
	col := ev.New("C31", "rapid state machine on the disassembler mode of the real UI over synthetic programs (1-6 blocks): "+
		"actions down n / up n / goto n (n from 0, small, to-the-last-line, line count, beyond, MaxInt; a sixth of the small ones zero-padded), entrypoint, find "+
		"<pattern> (literal fragments of existing line texts, anchors, character classes, alternations, patterns matching "+
		"nothing / only the cursor line / only lines before the cursor, one or two tokens, malformed patterns), interleaved "+
		"with instruction and block moves so texts and block positions change. Model: cursor integer + the harness' own "+
		"rendering; the cursor is read back from the `alllines` output. error => cursor unchanged; success => cursor = "+
		"old+-n | n | line of the instruction at the entry address | first line after the cursor in cyclic order (cursor "+
		"excluded) whose text matches regexp.CompilePOSIX(pattern); no match => unchanged. non-trivial = find that wraps "+
		"around or starts on the last line, entrypoint after a block move, or a rejected navigation; distinct by history")
	defer col.Flush()

	rapid.Check(t, func(t *rapid.T) {
		col.Case()
		synthTune(8, 30)
		p := drawProgram(t, 6, 6)
		synthTune(4, 14)
		code := buildCode(t, p)
		ui, err := newSynthUI(code)
		if err != nil {
			t.Fatalf("cannot build UI: %v", err)
		}
		cursor := 0
		var hist []string
		interesting := false
		movedBlocks := false

		readCursor := func(t *rapid.T) int {
			ls, msg := listing(ui)
			if msg != "" {
				t.Fatalf("%s (history %v)", msg, hist)
			}
			return cursorOf(ls)
		}
		run := func(t *rapid.T, line string) (rejected bool, out string) {
			err, out, crash := uiExec(ui, line)
			hist = append(hist, line)
			if crash != "" {
				t.Fatalf("%q crashed: %s (history %v)\n  program %s", line, crash, hist, p)
			}
			if err != nil {
				t.Fatalf("%q: %v", line, err)
			}
			return strings.Contains(out, "error:"), out
		}
		expect := func(t *rapid.T, line string, want int, rejected bool) {
			got := readCursor(t)
			if got != want {
				t.Fatalf("after %q (rejected=%v) the cursor is on line %d, want %d (history %v)\n  listing %q\n  program %s",
					line, rejected, got, want, hist, renderCode(code), p)
			}
			cursor = got
		}
		drawN := func(t *rapid.T, lines int) int {
			switch uniformInt(t, 8, "nClass") {
			case 0:
				return 0
			case 1:
				return lines - 1 - cursor
			case 2:
				return lines - cursor
			case 3:
				return lines
			case 4:
				return math.MaxInt
			case 5:
				return cursor
			case 6:
				return cursor + 1
			}
			return uniformInt(t, lines+1, "n")
		}

		// numeral writes n the way a user may type it: plainly, or (one time in six,
		// for small n) padded with zeros. A padded numeral may be refused (cursor
		// unchanged); if it is accepted it denotes the decimal number.
		numeral := func(t *rapid.T, n int) (string, bool) {
			if n < 100000 && uniformInt(t, 6, "zeroPadded") == 0 {
				return fmt.Sprintf("%0*d", len(fmt.Sprint(n))+1+uniformInt(t, 2, "zeros"), n), true
			}
			return fmt.Sprint(n), false
		}
		refusedPadded := func(t *rapid.T, line string, padded, rejected bool) bool {
			if padded && rejected {
				expect(t, line, cursor, rejected)
				return true
			}
			return false
		}

		t.Repeat(map[string]func(*rapid.T){
			"down": func(t *rapid.T) {
				lines := len(renderCode(code))
				n := drawN(t, lines)
				num, padded := numeral(t, n)
				line := "down " + num
				rejected, _ := run(t, line)
				if refusedPadded(t, line, padded, rejected) {
					return
				}
				ok := n <= lines-1-cursor
				if rejected == ok {
					t.Fatalf("%q with cursor %d of %d lines: rejected=%v", line, cursor, lines, rejected)
				}
				if ok {
					expect(t, line, cursor+n, rejected)
				} else {
					interesting = true
					expect(t, line, cursor, rejected)
				}
			},
			"up": func(t *rapid.T) {
				lines := len(renderCode(code))
				n := drawN(t, lines)
				num, padded := numeral(t, n)
				line := "up " + num
				rejected, _ := run(t, line)
				if refusedPadded(t, line, padded, rejected) {
					return
				}
				ok := n <= cursor
				if rejected == ok {
					t.Fatalf("%q with cursor %d: rejected=%v", line, cursor, rejected)
				}
				if ok {
					expect(t, line, cursor-n, rejected)
				} else {
					interesting = true
					expect(t, line, cursor, rejected)
				}
			},
			"goto": func(t *rapid.T) {
				lines := len(renderCode(code))
				n := drawN(t, lines)
				num, padded := numeral(t, n)
				line := "goto " + num
				rejected, _ := run(t, line)
				if refusedPadded(t, line, padded, rejected) {
					return
				}
				ok := n < lines
				if rejected == ok {
					t.Fatalf("%q with %d lines: rejected=%v", line, lines, rejected)
				}
				if ok {
					expect(t, line, n, rejected)
				} else {
					interesting = true
					expect(t, line, cursor, rejected)
				}
			},
			"entrypoint": func(t *rapid.T) {
				line := "entrypoint"
				rejected, _ := run(t, line)
				// line of the instruction currently at the entry address
				want, ln := -1, 0
				for i, b := range code.Blocks() {
					if i != 0 {
						ln++
					}
					ln++ // header
					for _, in := range b.Instructions() {
						if uint64(in.Begin()) == p.entry {
							want = ln
						}
						ln++
					}
				}
				if want < 0 || rejected {
					t.Fatalf("entrypoint rejected=%v, instruction at entry 0x%x on line %d (history %v)", rejected, p.entry, want, hist)
				}
				if movedBlocks {
					interesting = true
				}
				expect(t, line, want, rejected)
			},
			"find": func(t *rapid.T) {
				// the texts the search runs over are the ones the UI shows
				cur, msg := listing(ui)
				if msg != "" {
					t.Fatalf("%s", msg)
				}
				texts := listingTexts(cur)
				var pat string
				switch uniformInt(t, 10, "patKind") {
				case 0, 1, 2: // literal fragment of an existing line (alphanumerics only)
					src := texts[uniformInt(t, len(texts), "src")]
					words := regexp.MustCompile(`[A-Za-z0-9]+`).FindAllString(src, -1)
					if len(words) == 0 {
						pat = "Block"
					} else {
						pat = words[uniformInt(t, len(words), "word")]
					}
				case 3:
					pat = "^Block"
				case 4:
					pat = fmt.Sprintf("^Block %d:", 1+uniformInt(t, code.Len(), "blockNo"))
				case 5:
					pat = "^$"
				case 6:
					pat = "zzzzNOMATCH"
				case 7:
					pat = []string{"i[0-9]+@", "regstore|memstore", "[0-9A-F][0-9A-F]$", "type [0-9]", "x*", "^ +i"}[uniformInt(t, 6, "class")]
				case 8:
					pat = []string{"[", "(", "\\", "a{2,1}", "*"}[uniformInt(t, 5, "bad")]
				default: // two tokens, joined by one space by the UI
					pat = "Block " + fmt.Sprint(1+uniformInt(t, code.Len(), "bn"))
				}
				if strings.Count(pat, " ") > 1 || strings.HasPrefix(pat, " ") || strings.Contains(pat, "  ") {
					pat = "Block"
				}
				line := "find " + pat
				rejected, out := run(t, line)
				re, cerr := regexp.CompilePOSIX(pat)
				if cerr != nil {
					if !rejected {
						t.Fatalf("%q: malformed pattern was not answered with an error (output %q)", line, out)
					}
					interesting = true
					expect(t, line, cursor, rejected)
					return
				}
				if rejected {
					t.Fatalf("%q rejected although the pattern is valid: %q", line, out)
				}
				want := cursor
				n := len(texts)
				for k := 1; k < n; k++ {
					i := (cursor + k) % n
					if re.MatchString(texts[i]) {
						want = i
						if i < cursor || cursor == n-1 {
							interesting = true
						}
						break
					}
				}
				noMatch := strings.Contains(out, "No line matching")
				if (want == cursor) != noMatch {
					t.Fatalf("%q from line %d: 'no match' reported=%v, model target %d (history %v)\n  listing %q", line, cursor, noMatch, want, hist, texts)
				}
				expect(t, line, want, rejected)
			},
			"move": func(t *rapid.T) {
				kinds, blockOf := lineKinds(code)
				var a, b int
				if uniformInt(t, 2, "blockMove") == 0 {
					a = pickLine(t, kinds, blockOf, 'h', -1, "a")
					b = pickLine(t, kinds, blockOf, 'h', -1, "b")
					if a != b {
						movedBlocks = true
					}
				} else {
					a = pickLine(t, kinds, blockOf, 'i', -1, "a")
					b = pickLine(t, kinds, blockOf, 'i', blockOf[a], "b")
				}
				line := fmt.Sprintf("move %d %d", a, b)
				rejected, _ := run(t, line)
				// moves never move the cursor
				expect(t, line, cursor, rejected)
			},
		})
		if interesting {
			col.Class("interesting")
			col.Nontrivial(fmt.Sprint(p.String(), hist))
		} else {
			col.Class("plain")
		}
		if col.WantSample() {
			col.Sample(map[string]interface{}{"program": p.String(), "history": hist})
		} else {
			col.SkipSample()
		}
	})
}
