package checks

import (
	"fmt"
	"math/big"
	"sort"
	"strings"

	"mltwist/internal/parser"
	"mltwist/pkg/expr"
	"mltwist/pkg/model"
	"mltwist/verifharness/internal/irsem"

	"pgregory.net/rapid"
)

// synthDetails is a PlatformDetails stub with a unique text per instruction.
type synthDetails struct {
	name string
	text string
}

func (d synthDetails) Name() string   { return d.name }
func (d synthDetails) String() string { return d.text }

// ipTarget is one possible value of an instruction pointer write.
type ipTarget struct {
	isConst bool
	addr    uint64
}

// sIns is a synthetic instruction together with the generator's own
// description of it (the oracle never asks the code under test what an
// instruction reads or writes).
type sIns struct {
	id      int
	addr    uint64
	length  int
	typ     model.Type
	effects []expr.Effect
	text    string
	bytes   []byte

	regsRead  map[expr.Key]bool
	regsWrite map[expr.Key]bool
	memRead   map[expr.Key]bool
	memWrite  map[expr.Key]bool
	// ip lists the possible instruction pointer values; empty = no ip write.
	ip []ipTarget
}

func (s *sIns) end() uint64 { return s.addr + uint64(s.length) }

// realJump: some possible target other than the following address.
func (s *sIns) realJump() bool {
	for _, p := range s.ip {
		if !p.isConst || p.addr != s.end() {
			return true
		}
	}
	return false
}

func (s *sIns) parserIns() parser.Instruction {
	return parser.Instruction{
		Type:    s.typ,
		Addr:    model.Addr(s.addr),
		Bytes:   s.bytes,
		Effects: s.effects,
		Details: synthDetails{name: fmt.Sprintf("i%d", s.id), text: s.text},
	}
}

// describe fills the read/write sets from the effects with an own walker.
func (s *sIns) describe() {
	s.regsRead, s.regsWrite = map[expr.Key]bool{}, map[expr.Key]bool{}
	s.memRead, s.memWrite = map[expr.Key]bool{}, map[expr.Key]bool{}
	scan := func(e expr.Expr) {
		irsem.Walk(e, func(x expr.Expr) {
			switch n := x.(type) {
			case expr.RegLoad:
				s.regsRead[n.Key()] = true
			case expr.MemLoad:
				s.memRead[n.Key()] = true
			}
		})
	}
	for _, ef := range s.effects {
		switch x := ef.(type) {
		case expr.RegStore:
			s.regsWrite[x.Key()] = true
			scan(x.Value())
		case expr.MemStore:
			s.memWrite[x.Key()] = true
			scan(x.Addr())
			scan(x.Value())
		}
	}
	var sb strings.Builder
	fmt.Fprintf(&sb, "i%d@%x+%d", s.id, s.addr, s.length)
	if s.typ != 0 {
		fmt.Fprintf(&sb, "[type %d]", s.typ)
	}
	for _, ef := range s.effects {
		sb.WriteString(" " + irsem.EffectString(ef))
	}
	s.text = sb.String()
}

var (
	synthRegsAll = []expr.Key{"ra", "rb", "rc", "rd", "re", "rf", "rg", "rh", "ri", "rj", "rk", "rl"}
	synthRegs    = synthRegsAll[:4]
	synthMems    = []expr.Key{"m0", "m1", "m2"}
	// synthSpecialPerMille is the share of instructions with a special type.
	synthSpecialDenom = 14
)

// synthTune sets the size of the register pool and the rarity of special
// instruction types for the programs drawn afterwards.
func synthTune(regs int, specialDenom int) {
	synthRegs = synthRegsAll[:regs]
	synthSpecialDenom = specialDenom
}

const synthWindow = 0x4000

func c64(v uint64) expr.Const { return expr.ConstFromUint(v) }

func drawSReg(t *rapid.T, label string) expr.Key {
	// Registers and memory address spaces are separate name spaces: now and then a
	// register carries the name of one of the memory keys.
	if uniformInt(t, 16, label+"memName") == 0 {
		return synthMems[uniformInt(t, len(synthMems), label+"mn")]
	}
	return synthRegs[uniformInt(t, len(synthRegs), label)]
}

func drawSWidth(t *rapid.T, label string) expr.Width {
	switch rapid.IntRange(0, 5).Draw(t, label) {
	case 0:
		return 4
	case 1:
		return 1
	case 2:
		return 2
	}
	return 8
}

// drawSValue draws a small value expression over the register pool.
func drawSValue(t *rapid.T) expr.Expr {
	w := drawSWidth(t, "vw")
	a := expr.Expr(expr.NewRegLoad(drawSReg(t, "vs1"), w))
	var b expr.Expr
	if rapid.Bool().Draw(t, "vconst") {
		b = irsem.Const(new(big.Int).SetUint64(uint64(rapid.IntRange(0, 300).Draw(t, "vc"))), w)
	} else {
		b = expr.NewRegLoad(drawSReg(t, "vs2"), w)
	}
	switch rapid.IntRange(0, 5).Draw(t, "vop") {
	case 0:
		return a
	case 1:
		return expr.NewBinary(expr.Add, a, b, w)
	case 2:
		return expr.NewBinary(expr.Nand, a, b, w)
	case 3:
		return expr.NewBinary(expr.Mul, a, b, w)
	case 4:
		return expr.NewLess(a, b, a, b, w)
	}
	return b
}

// drawSAddr draws a memory address expression inside a small window so that
// accesses alias constantly.
func drawSAddr(t *rapid.T) expr.Expr {
	off := uint64(rapid.IntRange(0, 24).Draw(t, "aoff"))
	if rapid.IntRange(0, 2).Draw(t, "areg") == 0 {
		// window + off + (reg & 0x1f): register dependent, but never near the end
		// of the address space (ranges wrapping 2^64 are outside every property)
		r := expr.NewRegLoad(drawSReg(t, "abase"), 1)
		masked := expr.NewBinary(expr.Nand, expr.NewBinary(expr.Nand, r, expr.ConstFromUint[uint8](0x1f), 1), expr.ConstFromUint[uint8](0xff), 1)
		return expr.NewBinary(expr.Add, c64(synthWindow+off), masked, 8)
	}
	return c64(synthWindow + off)
}

// drawSBody draws the effects of a non-jump instruction.
func drawSBody(t *rapid.T) []expr.Effect {
	switch uniformInt(t, 14, "bodyKind") {
	case 0: // no effects
		return nil
	case 1, 2, 3: // alu
		return []expr.Effect{expr.NewRegStore(drawSValue(t), drawSReg(t, "dst"), drawSWidth(t, "dw"))}
	case 4, 5: // load
		k := synthMems[uniformInt(t, len(synthMems), "lk")]
		w := drawSWidth(t, "lw")
		return []expr.Effect{expr.NewRegStore(expr.NewMemLoad(k, drawSAddr(t), w), drawSReg(t, "ldst"), 8)}
	case 6, 7: // store
		k := synthMems[uniformInt(t, len(synthMems), "sk")]
		return []expr.Effect{expr.NewMemStore(drawSValue(t), k, drawSAddr(t), drawSWidth(t, "sw"))}
	case 8: // read-modify-write (amo like)
		k := synthMems[uniformInt(t, len(synthMems), "ak")]
		a := drawSAddr(t)
		w := drawSWidth(t, "aw")
		ld := expr.NewMemLoad(k, a, w)
		return []expr.Effect{
			expr.NewRegStore(ld, drawSReg(t, "adst"), 8),
			expr.NewMemStore(expr.NewBinary(expr.Add, ld, expr.NewRegLoad(drawSReg(t, "asrc"), w), w), k, a, w),
		}
	case 10: // two loads (same or different memory keys) combined into one register
		k1, k2 := synthMems[uniformInt(t, len(synthMems), "l1k")], synthMems[uniformInt(t, len(synthMems), "l2k")]
		w := drawSWidth(t, "llw")
		v := expr.NewBinary(expr.Add, expr.NewMemLoad(k1, drawSAddr(t), w), expr.NewMemLoad(k2, drawSAddr(t), w), 8)
		return []expr.Effect{expr.NewRegStore(v, drawSReg(t, "lldst"), 8)}
	case 11: // memory to memory copy, possibly between memory keys
		k1, k2 := synthMems[uniformInt(t, len(synthMems), "ck1")], synthMems[uniformInt(t, len(synthMems), "ck2")]
		w := drawSWidth(t, "cw")
		return []expr.Effect{expr.NewMemStore(expr.NewMemLoad(k1, drawSAddr(t), w), k2, drawSAddr(t), w)}
	case 12: // load through a loaded pointer (kept inside the window) and a second load
		k1, k2 := synthMems[uniformInt(t, len(synthMems), "pk1")], synthMems[uniformInt(t, len(synthMems), "pk2")]
		ptr := expr.NewMemLoad(k1, drawSAddr(t), 1)
		masked := expr.NewBinary(expr.Nand, expr.NewBinary(expr.Nand, ptr, expr.ConstFromUint[uint8](0x1f), 1), expr.ConstFromUint[uint8](0xff), 1)
		a := expr.NewBinary(expr.Add, c64(synthWindow), masked, 8)
		return []expr.Effect{
			expr.NewRegStore(expr.NewMemLoad(k2, a, drawSWidth(t, "pw")), drawSReg(t, "pdst"), 8),
			expr.NewRegStore(expr.NewMemLoad(synthMems[uniformInt(t, len(synthMems), "pk3")], drawSAddr(t), 1), drawSReg(t, "pdst2"), 8),
		}
	case 13: // two stores (same or different memory keys)
		k1, k2 := synthMems[uniformInt(t, len(synthMems), "sk1")], synthMems[uniformInt(t, len(synthMems), "sk2")]
		return []expr.Effect{
			expr.NewMemStore(drawSValue(t), k1, drawSAddr(t), drawSWidth(t, "s1w")),
			expr.NewMemStore(drawSValue(t), k2, drawSAddr(t), drawSWidth(t, "s2w")),
		}
	default: // two register writes
		return []expr.Effect{
			expr.NewRegStore(drawSValue(t), drawSReg(t, "d1"), 8),
			expr.NewRegStore(drawSValue(t), drawSReg(t, "d2"), drawSWidth(t, "d2w")),
		}
	}
}

func drawSType(t *rapid.T) model.Type {
	switch rapid.IntRange(0, synthSpecialDenom-1).Draw(t, "type") {
	case 0:
		return model.TypeMemOrder
	case 1:
		return model.TypeSyscall
	case 2:
		return model.TypeCPUStateChange
	case 3:
		return model.TypeMemOrder | model.TypeCPUStateChange
	}
	return model.TypeNone
}

// ipEffect builds an instruction pointer write out of targets. With two
// targets a conditional is used; a non-constant target reads a register.
func ipEffect(t *rapid.T, targets []ipTarget) expr.Effect {
	mk := func(p ipTarget) expr.Expr {
		if !p.isConst {
			return expr.NewRegLoad(drawSReg(t, "ipreg"), 8)
		}
		if rapid.IntRange(0, 3).Draw(t, "ipfold") == 0 {
			// needs folding: (addr-5)+5
			return expr.NewBinary(expr.Add, c64(p.addr-5), expr.ConstFromUint[uint8](5), 8)
		}
		return c64(p.addr)
	}
	cond := func(a, b expr.Expr) expr.Expr {
		return expr.NewLess(expr.NewRegLoad(drawSReg(t, "c1"), 8), expr.NewRegLoad(drawSReg(t, "c2"), 8), a, b, 8)
	}
	// more than two targets nest conditionals, in the true or the false arm
	v := mk(targets[len(targets)-1])
	for i := len(targets) - 2; i >= 0; i-- {
		if len(targets) > 2 && rapid.Bool().Draw(t, "nestLeft") {
			v = cond(v, mk(targets[i]))
		} else {
			v = cond(mk(targets[i]), v)
		}
	}
	// the instruction pointer is written 8 bytes wide, sometimes 4 (only when all
	// targets are below 2^32)
	far := false
	for _, p := range targets {
		far = far || (p.isConst && p.addr >= 1<<32)
	}
	if uniformInt(t, 5, "ipw4") == 0 && !far {
		return expr.NewRegStore(v, expr.IPKey, 4)
	}
	return expr.NewRegStore(v, expr.IPKey, 8)
}

// newSIns assembles an instruction.
func newSIns(t *rapid.T, id int, addr uint64, body []expr.Effect, ip []ipTarget, typ model.Type) *sIns {
	ln := rapid.IntRange(1, 8).Draw(t, "ilen")
	if rapid.Bool().Draw(t, "len4") {
		ln = 4
	}
	s := &sIns{id: id, addr: addr, length: ln, typ: typ, ip: ip}
	s.effects = append(s.effects, body...)
	if len(ip) > 0 {
		s.effects = append(s.effects, nil)
	}
	s.bytes = make([]byte, ln)
	for i := range s.bytes {
		s.bytes[i] = byte(id*17 + i)
	}
	return s
}

// sProgram is a generated code: blocks of instructions in address order.
type sProgram struct {
	ins    []*sIns
	blocks [][]*sIns // expected partition
	entry  uint64
}

// drawProgram draws a valid program (deps.NewCode must accept it): 1..maxBlocks
// blocks of 1..maxIns instructions; a block ends with a real jump (constant
// targets are block starts), or at a gap, or because the next block is a jump
// target / the entry.
func drawProgram(t *rapid.T, maxBlocks, maxIns int) *sProgram {
	return drawProgramOpt(t, maxBlocks, maxIns, false)
}

// drawProgramOpt with wild=true also produces jump targets and entry points
// that are not instruction starts (mid-instruction, in a gap, before, behind or
// at the end of the code).
func drawProgramOpt(t *rapid.T, maxBlocks, maxIns int, wild bool) *sProgram {
	nb := rapid.IntRange(1, maxBlocks).Draw(t, "nblocks")
	p := &sProgram{}
	addr := uint64(0x1000 + 8*rapid.IntRange(0, 4).Draw(t, "base"))
	id := 0
	type pending struct {
		s    *sIns
		kind int
	}
	var terms []pending
	for b := 0; b < nb; b++ {
		n := 1 + uniformInt(t, maxIns, "nins")
		var blk []*sIns
		for i := 0; i < n; i++ {
			var ip []ipTarget
			last := i == n-1
			body := drawSBody(t)
			kind := 0
			if last && rapid.IntRange(0, 2).Draw(t, "lastJump") != 0 {
				// terminator: kinds 1 const, 2 cond(const,next), 3 indirect, 4 cond(const,const),
				// 6 cond(indirect,const), 7 cond(const,indirect), 8 three-way with an indirect arm
				kind = []int{1, 2, 3, 4, 6, 7, 8}[rapid.IntRange(0, 6).Draw(t, "termKind")]
			} else if rapid.IntRange(0, 7).Draw(t, "fallthroughJump") == 0 {
				kind = 5 // ip write whose only target is the next instruction
			}
			s := newSIns(t, id, addr, body, ip, drawSType(t))
			if kind != 0 {
				s.effects = append(s.effects, nil)
				s.ip = []ipTarget{{}} // placeholder, fixed below
				terms = append(terms, pending{s, kind})
			}
			id++
			addr = s.end()
			blk = append(blk, s)
			p.ins = append(p.ins, s)
		}
		p.blocks = append(p.blocks, blk)
		if b < nb-1 && rapid.IntRange(0, 3).Draw(t, "gap") == 0 {
			addr += uint64(rapid.IntRange(1, 16).Draw(t, "gapLen"))
		}
	}
	starts := make([]uint64, len(p.blocks))
	for i, b := range p.blocks {
		starts[i] = b[0].addr
	}
	allStarts := make([]uint64, len(p.ins))
	for i, s := range p.ins {
		allStarts[i] = s.addr
	}
	lastEnd := p.ins[len(p.ins)-1].end()
	wildAddr := func(label string) uint64 {
		switch rapid.IntRange(0, 5).Draw(t, label+"Kind") {
		case 0: // mid instruction (or start for 1-byte instructions)
			s := p.ins[rapid.IntRange(0, len(p.ins)-1).Draw(t, label+"Ins")]
			return s.addr + uint64(rapid.IntRange(0, s.length-1).Draw(t, label+"Off"))
		case 1:
			return lastEnd
		case 2:
			return lastEnd + uint64(rapid.IntRange(1, 64).Draw(t, label+"After"))
		case 3:
			return p.ins[0].addr - uint64(rapid.IntRange(1, 64).Draw(t, label+"Before"))
		case 4: // some address inside the code range (may hit a gap)
			return p.ins[0].addr + uint64(rapid.IntRange(0, int(lastEnd-p.ins[0].addr)).Draw(t, label+"Any"))
		}
		return allStarts[rapid.IntRange(0, len(allStarts)-1).Draw(t, label+"Start")]
	}
	var cur *sIns
	pick := func() uint64 {
		if wild && rapid.IntRange(0, 11).Draw(t, "farTarget") == 0 {
			// a target beyond 2^32 whose low 32 bits equal the address of the
			// following instruction or of some instruction start: it is neither
			// (an address truncated to 32 bits would take it for one)
			low := cur.end()
			if rapid.Bool().Draw(t, "farLowStart") {
				low = allStarts[rapid.IntRange(0, len(allStarts)-1).Draw(t, "farIns")]
			}
			return low + uint64(rapid.IntRange(1, 3).Draw(t, "farK"))<<32
		}
		if wild && rapid.IntRange(0, 3).Draw(t, "wildTarget") == 0 {
			return wildAddr("wt")
		}
		if wild && rapid.Bool().Draw(t, "anyStart") {
			return allStarts[rapid.IntRange(0, len(allStarts)-1).Draw(t, "targetIns")]
		}
		return starts[rapid.IntRange(0, len(starts)-1).Draw(t, "target")]
	}
	for _, pe := range terms {
		s := pe.s
		cur = s
		switch pe.kind {
		case 1:
			s.ip = []ipTarget{{true, pick()}}
		case 2:
			s.ip = []ipTarget{{true, pick()}, {true, s.end()}}
		case 3:
			s.ip = []ipTarget{{false, 0}}
		case 4:
			s.ip = []ipTarget{{true, pick()}, {true, pick()}}
		case 6:
			s.ip = []ipTarget{{false, 0}, {true, pick()}}
		case 7:
			s.ip = []ipTarget{{true, pick()}, {false, 0}}
		case 8:
			s.ip = []ipTarget{{true, pick()}, {false, 0}, {true, pick()}}
			if rapid.Bool().Draw(t, "k8order") {
				s.ip[0], s.ip[1] = s.ip[1], s.ip[0]
			}
		case 5:
			s.ip = []ipTarget{{true, s.end()}}
			if rapid.Bool().Draw(t, "ft2") {
				s.ip = append(s.ip, ipTarget{true, s.end()})
			}
		}
		// a terminator whose only targets are its own end is not a jump: make
		// sure kinds 1-4 really jump (target == end happens when the next block
		// follows without a gap; then it is still a cut because of the target)
	}
	for _, s := range p.ins {
		if len(s.ip) > 0 {
			s.effects[len(s.effects)-1] = ipEffect(t, s.ip)
		}
		s.describe()
	}
	p.entry = starts[rapid.IntRange(0, len(starts)-1).Draw(t, "entry")]
	if wild && rapid.IntRange(0, 2).Draw(t, "wildEntry") == 0 {
		p.entry = wildAddr("we")
	}
	return p
}

func (p *sProgram) parserSeq() []parser.Instruction {
	seq := make([]parser.Instruction, len(p.ins))
	for i, s := range p.ins {
		seq[i] = s.parserIns()
	}
	return seq
}

// expectedBlocks computes the partition the statement of C08 prescribes, or an
// error reason.
func expectedBlocks(ins []*sIns, entry uint64) ([][]*sIns, string) {
	sorted := append([]*sIns(nil), ins...)
	sort.Slice(sorted, func(i, j int) bool { return sorted[i].addr < sorted[j].addr })
	starts := map[uint64]int{}
	for i, s := range sorted {
		starts[s.addr] = i
	}
	cutBefore := map[int]bool{}
	if _, ok := starts[entry]; !ok {
		return nil, fmt.Sprintf("entry 0x%x is not an instruction start", entry)
	}
	cutBefore[starts[entry]] = true
	for i, s := range sorted {
		for _, p := range s.ip {
			if !p.isConst || p.addr == s.end() {
				continue
			}
			idx, ok := starts[p.addr]
			if !ok {
				return nil, fmt.Sprintf("target 0x%x of i%d is not an instruction start", p.addr, s.id)
			}
			cutBefore[idx] = true
		}
		if i+1 < len(sorted) && (s.realJump() || s.end() != sorted[i+1].addr) {
			cutBefore[i+1] = true
		}
	}
	var blocks [][]*sIns
	for i, s := range sorted {
		if i == 0 || cutBefore[i] {
			blocks = append(blocks, nil)
		}
		blocks[len(blocks)-1] = append(blocks[len(blocks)-1], s)
	}
	return blocks, ""
}

func insList(b []*sIns) string {
	var sb strings.Builder
	for _, s := range b {
		sb.WriteString(s.text)
		sb.WriteString("; ")
	}
	return sb.String()
}

func (p *sProgram) String() string {
	var sb strings.Builder
	fmt.Fprintf(&sb, "entry=0x%x ", p.entry)
	for i, b := range p.blocks {
		fmt.Fprintf(&sb, "B%d{%s} ", i, insList(b))
	}
	return sb.String()
}
