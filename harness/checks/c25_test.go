package checks

import (
	"fmt"
	"strings"
	"testing"

	"mltwist/pkg/model"
	"mltwist/verifharness/internal/ev"
	"mltwist/verifharness/internal/rvref"

	"pgregory.net/rapid"
)

// c25Sibling changes exactly one operand field of f (for instruction in).
func c25Sibling(t *rapid.T, in *rvref.Ins, f rvref.Fields) (rvref.Fields, string) {
	type mut struct {
		name string
		f    func(*rvref.Fields)
	}
	otherReg := func(old uint32) uint32 {
		n := uint32(rapid.IntRange(0, 30).Draw(t, "newReg"))
		if n >= old {
			n++
		}
		return n
	}
	flipImm := func(lo, hi uint) func(*rvref.Fields) {
		return func(g *rvref.Fields) {
			g.Imm ^= int64(1) << uint(rapid.IntRange(int(lo), int(hi)).Draw(t, "immBit"))
		}
	}
	var ms []mut
	rd := mut{"rd", func(g *rvref.Fields) { g.Rd = otherReg(g.Rd) }}
	rs1 := mut{"rs1", func(g *rvref.Fields) { g.Rs1 = otherReg(g.Rs1) }}
	rs2 := mut{"rs2", func(g *rvref.Fields) { g.Rs2 = otherReg(g.Rs2) }}
	switch in.Fmt {
	case rvref.FmtR:
		ms = []mut{rd, rs1, rs2}
	case rvref.FmtI, rvref.FmtLoad, rvref.FmtJALR:
		ms = []mut{rd, rs1, {"imm", flipImm(0, 11)}}
	case rvref.FmtS:
		ms = []mut{rs1, rs2, {"imm", flipImm(0, 11)}}
	case rvref.FmtB:
		ms = []mut{rs1, rs2, {"imm", flipImm(1, 12)}}
	case rvref.FmtU:
		ms = []mut{rd, {"imm", flipImm(12, 31)}}
	case rvref.FmtJ:
		ms = []mut{rd, {"imm", flipImm(1, 20)}}
	case rvref.FmtShift:
		ms = []mut{rd, rs1, {"shamt", func(g *rvref.Fields) {
			g.Shamt ^= 1 << uint(rapid.IntRange(0, in.ShamtBits-1).Draw(t, "shBit"))
		}}}
	case rvref.FmtAMO:
		ms = []mut{rd, rs1, rs2, {"aq", func(g *rvref.Fields) { g.Aq = !g.Aq }}, {"rl", func(g *rvref.Fields) { g.Rl = !g.Rl }}}
	case rvref.FmtLR:
		ms = []mut{rd, rs1, {"aq", func(g *rvref.Fields) { g.Aq = !g.Aq }}, {"rl", func(g *rvref.Fields) { g.Rl = !g.Rl }}}
	case rvref.FmtFence:
		ms = []mut{{"pred", func(g *rvref.Fields) { g.Pred ^= 1 << uint(rapid.IntRange(0, 3).Draw(t, "pBit")) }},
			{"succ", func(g *rvref.Fields) { g.Succ ^= 1 << uint(rapid.IntRange(0, 3).Draw(t, "sBit")) }}}
	case rvref.FmtCSR:
		ms = []mut{rd, rs1, {"csr", func(g *rvref.Fields) { g.Csr ^= 1 << uint(rapid.IntRange(0, 11).Draw(t, "cBit")) }}}
	case rvref.FmtCSRI:
		ms = []mut{rd, {"uimm", func(g *rvref.Fields) { g.Uimm ^= 1 << uint(rapid.IntRange(0, 4).Draw(t, "uBit")) }},
			{"csr", func(g *rvref.Fields) { g.Csr ^= 1 << uint(rapid.IntRange(0, 11).Draw(t, "cBit")) }}}
	default:
		return f, ""
	}
	m := ms[rapid.IntRange(0, len(ms)-1).Draw(t, "field")]
	g := f
	m.f(&g)
	return g, m.name
}

func sameLifted(a, b *liftedResult) string {
	if a.problem != "" || b.problem != "" {
		return "evaluation problem: " + a.problem + b.problem
	}
	if a.ipSet != b.ipSet || a.ip != b.ip {
		return fmt.Sprintf("instruction pointer %v/0x%x vs %v/0x%x", a.ipSet, a.ip, b.ipSet, b.ip)
	}
	if fmt.Sprint(a.xw) != fmt.Sprint(b.xw) {
		return fmt.Sprintf("registers %v vs %v", a.xw, b.xw)
	}
	if fmt.Sprint(a.csrW) != fmt.Sprint(b.csrW) {
		return fmt.Sprintf("CSRs %v vs %v", a.csrW, b.csrW)
	}
	if fmt.Sprint(a.mem) != fmt.Sprint(b.mem) {
		return fmt.Sprintf("memory %v vs %v", a.mem, b.mem)
	}
	return ""
}

func TestC25(t *testing.T) {
	runWitnesses(t, "C25")
	col := ev.New("C25", "rapid: accepted word w1 (configuration x mnemonic x biased fields, as C01) and a sibling w2 at the "+
		"same address differing in exactly one operand field (rd, rs1, rs2, one immediate bit, shamt bit, CSR number bit, "+
		"uimm bit, aq/rl, pred/succ) that is accepted as the same mnemonic. Checks: text starts with the mnemonic; loads "+
		"and stores show offset(base) with the decoded offset and base register; if the two texts are equal the lifted "+
		"effects must agree on 12 boundary-biased machine states (a differing state is a concrete witness). non-trivial = "+
		"sibling pair (the only cases that test the metamorphic relation); distinct by (configuration, w1, w2)")
	defer col.Flush()
	if _, msg := rvParser(rvref.Cfg{XLEN: 64}); msg != "" {
		t.Fatalf("%s", msg)
	}

	rapid.Check(t, func(t *rapid.T) {
		for rep := 0; rep < 4; rep++ {
			col.Case()
			cfg := drawCfg(t)
			p, _ := rvParser(cfg)
			in := drawIns(t, cfg)
			f := drawFields(t, in)
			w1 := rvref.Enc(in, f)
			f = rvref.Dec(in, w1)
			addr := drawAddr(t, cfg.XLEN)

			i1, err := p.Parse(model.Addr(addr), wordBytes(w1))
			if err != nil {
				t.Fatalf("%s: %08x (%s) rejected: %v", cfg, w1, in.Name, err)
			}
			var s1 string
			if msg := catch(func() { s1 = i1.Details.String() }); msg != "" {
				t.Fatalf("%s: String() of %08x (%s): %s", cfg, w1, in.Name, msg)
			}
			// the mnemonic of the specification (independent table), not the tool's own
			// Name(): "its mnemonic" is the instruction's, whatever the table calls it
			// (compared case-insensitively, as C02 does: the RV32 table spells one
			// mnemonic "amoadd.W")
			name := in.Name
			if !(strings.EqualFold(s1, name) || len(s1) > len(name) && strings.EqualFold(s1[:len(name)], name) && s1[len(name)] == ' ') {
				t.Fatalf("%s: text %q of %08x does not start with the mnemonic %q", cfg, s1, w1, name)
			}
			if in.Fmt == rvref.FmtLoad || in.Fmt == rvref.FmtS {
				want := fmt.Sprintf("%d(x%d)", f.Imm, f.Rs1)
				if !strings.Contains(s1, want) {
					t.Fatalf("%s: text %q of %08x (%s) does not contain the memory operand %q", cfg, s1, w1, in.Name, want)
				}
			}

			g, field := c25Sibling(t, in, f)
			if field == "" {
				col.Class("no-operands/" + in.Name)
				continue
			}
			w2 := rvref.Enc(in, g)
			if w2 == w1 || rvref.Decode(w2, cfg) != in {
				col.Class("sibling-not-applicable")
				continue
			}
			i2, err := p.Parse(model.Addr(addr), wordBytes(w2))
			if err != nil {
				t.Fatalf("%s: sibling %08x (%s) rejected: %v", cfg, w2, in.Name, err)
			}
			s2 := i2.Details.String()
			col.Nontrivial(fmt.Sprintf("%s/%08x/%08x", cfg, w1, w2))
			if s1 != s2 {
				col.Class("text-differs/" + field)
				continue
			}
			col.Class("text-equal/" + field)
			csr1, csr2 := -1, -1
			if in.Fmt == rvref.FmtCSR || in.Fmt == rvref.FmtCSRI {
				csr1, csr2 = int(f.Csr), int(g.Csr)
			}
			for k := 0; k < 12; k++ {
				m := machineFor(t, cfg, in, f, addr)
				// bias the registers of the sibling as well
				for _, r := range []uint32{g.Rd, g.Rs1, g.Rs2} {
					if r != 0 && r != f.Rd && r != f.Rs1 && r != f.Rs2 {
						m.X[r] = drawRegVal(t, cfg.XLEN, "sx")
					}
				}
				if csr2 >= 0 && csr2 != csr1 {
					m.CSR[uint32(csr2)] = drawRegVal(t, cfg.XLEN, "csr2")
				}
				r1, _ := applyLifted(i1.Effects, m, csr1)
				r2, _ := applyLifted(i2.Effects, m, csr2)
				if diff := sameLifted(r1, r2); diff != "" {
					t.Fatalf("%s at 0x%x: words %08x and %08x (%s, differing in %s) are both shown as %q but behave differently: %s (x%d=0x%x x%d=0x%x)",
						cfg, addr, w1, w2, in.Name, field, s1, diff, f.Rs1, m.X[f.Rs1], f.Rs2, m.X[f.Rs2])
				}
			}
			if col.WantSample() {
				col.Sample(map[string]string{"cfg": cfg.String(), "w1": fmt.Sprintf("%08x", w1), "w2": fmt.Sprintf("%08x", w2),
					"field": field, "text": s1})
			} else {
				col.SkipSample()
			}
		}
	})
}
